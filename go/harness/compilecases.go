package main

import (
	"flag"
	"fmt"
	"os"
	"regexp/syntax"
	"sort"
	"strings"
	"unicode"

	"github.com/coregx/coregex/nfa"
)

// ---------------------------------------------------------------------------
// compile-cases — correspondence cases for Compile.v (layer L0: the Gallina model of the
// Thompson compiler nfa/compile.go and the theorem that the compiled automaton denotes the
// pattern; properties C01 / C02).
//
// For every pattern (curated + corpus + templates + grammar) the sub-command parses it as
// /repo does (nfa/compile.go: Compile = syntax.Parse(pattern, syntax.Perl) followed by
// CompileRegexp — no Simplify anywhere), translates the *syntax.Regexp into a Gallina `re`
// term (CV.Regex), compiles it with the REAL compiler (nfa.NewDefaultCompiler), dumps the
// automaton (nfadump.go) and observes nfa.PikeVM.SearchAt on a few haystacks.  The Coq case
// checker (Compile.v: check_case) requires `compile ast` to be EQUAL to the dumped
// automaton (same states, same ids) and the observed spans to be those of the reference
// search on it.  Patterns outside the modelled fragment are counted per reason.
// ---------------------------------------------------------------------------

// ccFoldOrbit mirrors nfa/compile.go: foldOrbit.
func ccFoldOrbit(r rune) []rune {
	orbit := []rune{r}
	for f := unicode.SimpleFold(r); f != r; f = unicode.SimpleFold(f) {
		orbit = append(orbit, f)
	}
	sort.Slice(orbit, func(i, j int) bool { return orbit[i] < orbit[j] })
	return orbit
}

// ccAST renders the AST as a Gallina term of type CV.Regex.re; why != "" when the node is
// outside the modelled fragment.
func ccAST(re *syntax.Regexp) (term string, why string) {
	subs := func() (string, string) {
		parts := make([]string, len(re.Sub))
		for i, s := range re.Sub {
			t, w := ccAST(s)
			if w != "" {
				return "", w
			}
			parts[i] = t
		}
		return "[" + strings.Join(parts, "; ") + "]", ""
	}
	sub0 := func(ctor string) (string, string) {
		if len(re.Sub) != 1 {
			return "", "arity"
		}
		t, w := ccAST(re.Sub[0])
		if w != "" {
			return "", w
		}
		return "(" + ctor + " " + t + ")", ""
	}
	greedy := coqBool(re.Flags&syntax.NonGreedy == 0)
	switch re.Op {
	case syntax.OpEmptyMatch:
		return "REmpty", ""
	case syntax.OpLiteral:
		fold := re.Flags&syntax.FoldCase != 0
		items := make([]string, len(re.Rune))
		for i, r := range re.Rune {
			if r < 0 || r > unicode.MaxRune {
				return "", "literal-rune-out-of-range"
			}
			if fold {
				if o := ccFoldOrbit(r); len(o) > 1 {
					rest := make([]string, len(o)-1)
					for j, m := range o[1:] {
						rest[j] = fmt.Sprint(m)
					}
					items[i] = fmt.Sprintf("(%d, [%s])", o[0], strings.Join(rest, "; "))
					continue
				}
			}
			items[i] = fmt.Sprintf("(%d, [])", r)
		}
		return "(RLit [" + strings.Join(items, "; ") + "])", ""
	case syntax.OpCharClass:
		if len(re.Rune)%2 != 0 {
			return "", "class-odd"
		}
		rs := make([]string, 0, len(re.Rune)/2)
		for i := 0; i+1 < len(re.Rune); i += 2 {
			rs = append(rs, fmt.Sprintf("(%d, %d)", re.Rune[i], re.Rune[i+1]))
		}
		return "(RClass [" + strings.Join(rs, "; ") + "])", ""
	case syntax.OpAnyChar:
		return "RAnyChar", ""
	case syntax.OpAnyCharNotNL:
		return "RAnyCharNotNL", ""
	case syntax.OpConcat:
		t, w := subs()
		if w != "" {
			return "", w
		}
		return "(RCat " + t + ")", ""
	case syntax.OpAlternate:
		t, w := subs()
		if w != "" {
			return "", w
		}
		return "(RAlt " + t + ")", ""
	case syntax.OpStar:
		return sub0("RStar " + greedy)
	case syntax.OpPlus:
		return sub0("RPlus " + greedy)
	case syntax.OpQuest:
		return sub0("RQuest " + greedy)
	case syntax.OpRepeat:
		if re.Min < 0 || re.Min > 1000 || re.Max > 1000 {
			return "", "repeat-bounds"
		}
		mx := "None"
		if re.Max >= 0 {
			mx = fmt.Sprintf("(Some %d%%nat)", re.Max)
		}
		return sub0(fmt.Sprintf("RRepeat %s %d%%nat %s", greedy, re.Min, mx))
	case syntax.OpCapture:
		return sub0(fmt.Sprintf("RCap %d%%nat", re.Cap))
	case syntax.OpBeginText:
		return "(RLook LStartText)", ""
	case syntax.OpEndText:
		return "(RLook LEndText)", ""
	case syntax.OpBeginLine:
		return "(RLook LStartLine)", ""
	case syntax.OpEndLine:
		return "(RLook LEndLine)", ""
	case syntax.OpWordBoundary:
		return "(RLook LWordB)", ""
	case syntax.OpNoWordBoundary:
		return "(RLook LNoWordB)", ""
	default:
		return "", "op:" + re.Op.String()
	}
}

// ccOps collects the set of syntax.Op names of an AST (for the histogram).
func ccOps(re *syntax.Regexp, acc map[string]bool) {
	acc[re.Op.String()] = true
	for _, s := range re.Sub {
		ccOps(s, acc)
	}
}

func ccHasDot(re *syntax.Regexp) bool {
	if re.Op == syntax.OpAnyChar || re.Op == syntax.OpAnyCharNotNL {
		return true
	}
	for _, s := range re.Sub {
		if ccHasDot(s) {
			return true
		}
	}
	return false
}

type ccPrepared struct {
	pat   string
	src   string
	re    *syntax.Regexp
	term  string
	n     *nfa.NFA
	d     dumpedNFA
	hasDt bool
}

// ccPrepare: parse, translate, compile with the real compiler, dump.  reason != "" names why
// the pattern is not used.
func ccPrepare(pat, src string) (*ccPrepared, string) {
	re, err := syntax.Parse(pat, syntax.Perl)
	if err != nil {
		return nil, "skip:parse"
	}
	n, err := nfa.NewDefaultCompiler().CompileRegexp(re)
	if err != nil {
		return nil, "skip:real-compiler-error"
	}
	term, why := ccAST(re)
	if why != "" {
		return nil, "outside:" + why
	}
	d := dumpNFA(n)
	if !d.ok {
		return nil, "outside:nfa-" + d.why
	}
	if strings.Contains(d.coq, "999999") {
		// a state left with InvalidState (a class of surrogates only: compileUnicodeClassLarge
		// falls through to compileNoMatch and never patches its target epsilon)
		return nil, "outside:unpatched-state"
	}
	return &ccPrepared{pat: pat, src: src, re: re, term: term, n: n, d: d, hasDt: ccHasDot(re)}, ""
}

func cmdCompileCases(args []string) int {
	fs := flag.NewFlagSet("compile-cases", flag.ExitOnError)
	seed := fs.Uint64("seed", 1, "seed")
	tier := fs.String("tier", "quick", "quick|thorough")
	npat := fs.Int("n", 0, "number of generated patterns examined (0: by tier)")
	out := fs.String("out", "cases.v", "Coq case file")
	statsPath := fs.String("stats", "stats.json", "stats output")
	corpus := fs.String("corpus", "/verif/corpus/patterns_harvested.txt", "pattern corpus")
	maxStates := fs.Int("maxstates", 400, "largest automaton emitted as a Coq case")
	fs.Parse(args)

	st := newStats("C01", *seed)
	// np generated/curated patterns are examined in addition to the whole corpus; at most
	// maxCoq cases and maxTotal states go into the Coq file.
	np, maxCoq, maxTotal, perPat := 500, 600, 40000, 3
	if *tier == "thorough" {
		np, maxCoq, maxTotal, perPat = 4000, 1450, 110000, 4
	}
	if *npat > 0 {
		np = *npat
	}
	r := newRng(*seed)
	corp := loadCorpus(*corpus)
	pg := &patGen{r: r.fork(1), corpus: corp}
	distinct := distinctSet{}

	var coq strings.Builder
	coq.WriteString("From CV Require Import Nfa Regex Compile.\nFrom Coq Require Import List NArith.\nImport ListNotations.\nOpen Scope N_scope.\n")
	coq.WriteString("(* generated by `harness compile-cases`: AST translated from regexp/syntax, automaton dumped from the\n   real nfa.Compiler, spans observed from nfa.PikeVM.SearchAt *)\n")
	coq.WriteString("Definition cases : list case := [\n")
	ncoq, totalStates := 0, 0
	seen := map[string]bool{}

	// counters for the coverage report
	corpusTotal, corpusCompiles, corpusInFrag := 0, 0, 0
	genTotal, genCompiles, genInFrag := 0, 0, 0

	emit := func(idx int, p *ccPrepared, pr *rng) {
		if ncoq >= maxCoq || totalStates+p.d.states > maxTotal || p.d.states > *maxStates {
			if p.d.states > *maxStates {
				st.hist("coq:not-emitted-too-many-states")
			} else {
				st.hist("coq:not-emitted-budget")
			}
			return
		}
		hg := newHayGen(pr.fork(7), p.re)
		vm := nfa.NewPikeVM(p.n)
		var obs []string
		for j := 0; j < perPat; j++ {
			h := pkHay(pr, hg, p.re, j+idx, 10)
			ats := []int{0}
			if len(h) > 0 && j%2 == 1 {
				ats = append(ats, 1+pr.intn(len(h)))
			}
			for _, at := range ats {
				s, e, ok := vm.SearchAt(h, at)
				st.Evaluations++
				distinct.add(fmt.Sprintf("%s\x00%d\x00%s", p.pat, at, h))
				sp := "None"
				if ok {
					sp = fmt.Sprintf("(Some (%d%%nat, %d%%nat))", s, e)
					st.hist("obs:match")
				} else {
					st.hist("obs:none")
				}
				obs = append(obs, fmt.Sprintf("(%s, %d%%nat, %s)", coqBytes(h), at, sp))
			}
		}
		if ncoq > 0 {
			coq.WriteString(";\n")
		}
		fmt.Fprintf(&coq, "  (* %d [%s]: %s *)\n  mkCase %d %s\n    %s\n    [%s]", idx, p.src, pkSafe(p.pat), idx, p.term, p.d.coq, strings.Join(obs, "; "))
		ncoq++
		totalStates += p.d.states
		st.hist("coq:emitted")
		if p.hasDt {
			st.hist("coq:emitted-with-dot")
		}
	}

	examine := func(idx int, pat, src string, wantCoq bool) (compiles, inFrag bool) {
		p, reason := ccPrepare(pat, src)
		if p == nil {
			st.hist(reason)
			if strings.HasPrefix(reason, "outside:") {
				st.sample(map[string]any{"pattern": pat, "reason": reason})
				return true, false
			}
			return false, false
		}
		ops := map[string]bool{}
		ccOps(p.re, ops)
		for o := range ops {
			st.hist("op:" + o)
		}
		st.hist("src:" + src)
		if p.n.IsAnchored() {
			st.hist("nfa:anchored")
		}
		if wantCoq && !seen[pat] {
			seen[pat] = true
			emit(idx, p, r.fork(uint64(idx)+9000))
		}
		return true, true
	}

	// (1) curated + generated patterns (all candidates for the Coq file)
	pick := r.fork(98)
	for i := 0; i < np; i++ {
		pi := len(curatedPatterns) + i
		if i < len(curatedPatterns) {
			pi = i
		} else if i%4 == 0 {
			pi = pick.intn(len(curatedPatterns))
		}
		pat, src := pg.next(pi)
		genTotal++
		c, f := examine(i, pat, src, true)
		if c {
			genCompiles++
		}
		if f {
			genInFrag++
		}
	}
	// (2) the whole harvested corpus: coverage of the fragment; a sample goes to the Coq file
	stride := 1
	if len(corp) > 0 {
		stride = len(corp)/400 + 1
	}
	off := int(*seed % uint64(stride))
	for i, pat := range corp {
		corpusTotal++
		c, f := examine(100000+i, pat, "corpus-all", i%stride == off)
		if c {
			corpusCompiles++
		}
		if f {
			corpusInFrag++
		}
	}

	coq.WriteString("\n].\n")
	coq.WriteString("Definition M := Eval vm_compute in mismatches cases.\nPrint M.\n")
	coq.WriteString("Definition MK := Eval vm_compute in mismatch_kinds cases.\nPrint MK.\n")
	if err := os.WriteFile(*out, []byte(coq.String()), 0o644); err != nil {
		fatal("write %s: %v", *out, err)
	}
	st.CoqCases = ncoq
	st.Distinct = len(distinct)
	st.Rule = "per pattern (curated + templates + grammar, and the whole harvested corpus): syntax.Parse(p, syntax.Perl) as nfa.Compiler.Compile does (no Simplify), AST translated to a Gallina `re` term, automaton of nfa.NewDefaultCompiler().CompileRegexp dumped; haystacks <= 10 bytes (empty, sampled match, match in noise, two matches, boundary context, noise), nfa.NewPikeVM(n).SearchAt(h, at) for at = 0 and a random offset.  Coq (Compile.v check_case): re_ok ast, `compile ast` EQUAL to the dumped automaton (nfa_eqb), every observed span = span of Nfa.find_at on it.  `outside:*` = patterns the real compiler accepts whose AST is not in the modelled fragment"
	pct := func(a, b int) float64 {
		if b == 0 {
			return 0
		}
		return float64(a) * 100 / float64(b)
	}
	st.Extra["corpus_patterns"] = corpusTotal
	st.Extra["corpus_compiled_by_real_compiler"] = corpusCompiles
	st.Extra["corpus_in_fragment"] = corpusInFrag
	st.Extra["corpus_fraction_in_fragment_pct"] = pct(corpusInFrag, corpusCompiles)
	st.Extra["generated_patterns"] = genTotal
	st.Extra["generated_compiled_by_real_compiler"] = genCompiles
	st.Extra["generated_in_fragment"] = genInFrag
	st.Extra["generated_fraction_in_fragment_pct"] = pct(genInFrag, genCompiles)
	st.Extra["coq_total_states"] = totalStates
	st.write(*statsPath)
	fmt.Printf("compile-cases: corpus %d/%d in fragment (of %d), generated %d/%d, %d coq cases (%d states), %d observations\n",
		corpusInFrag, corpusCompiles, corpusTotal, genInFrag, genCompiles, ncoq, totalStates, st.Evaluations)
	return 0
}

func init() { register("compile-cases", cmdCompileCases) }
