package main

// Sub-command c18: property C18, "vectorised byte-search primitives equal their
// scalar definitions".
//
//	harness c18 -seed N -tier quick|thorough -out cases.v -stats stats.json
//
// Every public primitive of github.com/coregx/coregex/simd, and (through the
// add-only hook file /repo/simd/verif_export.go, build tag verif) every pure-Go
// "generic" code path, is compared with a naive scalar definition written here,
// over a structured space: every length 0..200 (thorough 0..600 plus a few
// 4k..70k), a hit at every index and no hit, near-miss filler bytes
// (needle±1, needle^1, needle^0x80), alignment offsets 0..63 inside a larger
// poisoned buffer, random and extremal membership tables.
//
// Two child processes (re-exec of this binary with the hidden sub-command
// c18-child) repeat the same deterministic case stream
//   - mode guard: the haystack is placed so that it ends exactly at the end of an
//     mmap'ed region followed by a PROT_NONE page (and, alternately, starts
//     exactly at the start of a region preceded by a PROT_NONE page), so that an
//     over-read / under-read faults; a fault or a crash is a violation;
//   - mode noavx: with GODEBUG=cpu.avx2=off, so that the public entry points take
//     the non-vector dispatch outcome for every length.

import (
	"bufio"
	"bytes"
	"encoding/hex"
	"encoding/json"
	"flag"
	"fmt"
	"os"
	"os/exec"
	"runtime/debug"
	"sort"
	"strings"
	"time"
	"unsafe"

	"github.com/coregx/coregex/simd"
	"golang.org/x/sys/cpu"
	"golang.org/x/sys/unix"
)

func init() {
	register("c18", c18Main)
	register("c18-child", c18Child)
}

// Function codes (shared with coq/Swar.v: case.cfun; 100+k = generic variant).
const (
	fMemchr = 1 + iota
	fMemchr2
	fMemchr3
	fPair
	fMemmem
	fDigit
	fDigitAt
	fWord
	fNotWord
	fInTable
	fNotInTable
	fIsASCII
	fCount
	fFirstNA
)

var c18Names = map[int]string{
	fMemchr: "Memchr", fMemchr2: "Memchr2", fMemchr3: "Memchr3", fPair: "MemchrPair",
	fMemmem: "Memmem", fDigit: "MemchrDigit", fDigitAt: "MemchrDigitAt", fWord: "MemchrWord",
	fNotWord: "MemchrNotWord", fInTable: "MemchrInTable", fNotInTable: "MemchrNotInTable",
	fIsASCII: "IsASCII", fCount: "CountNonASCII", fFirstNA: "FirstNonASCII",
}

// variants of one primitive
const (
	vPublic  = 0 // the exported function
	vGeneric = 1 // the unexported pure-Go function through the verif hook
	vSingle  = 2 // memmemSingle with a valid but arbitrary rare index (Memmem only)
	vPaired  = 3 // memmemPaired with a valid but arbitrary index pair (Memmem only)
)

var c18VariantNames = []string{"", "Generic", "/memmemSingle", "/memmemPaired"}

type c18case struct {
	idx    int
	fn     int
	fam    string // generator family
	hay    []byte
	n      [3]byte // needles / pair bytes
	ival   int     // MemchrPair offset, MemchrDigitAt at
	needle []byte  // Memmem
	table  *[256]bool
	tname  string
	pos    int  // planted position (-1 none); informative only
	poisA  byte // poison byte after the slice
	poisB  byte // poison byte before the slice
	ri1    int  // rare indices for vSingle / vPaired
	ri2    int
}

func (c *c18case) name(v int) string { return c18Names[c.fn] + c18VariantNames[v] }

// sig is the stable signature of a failing input.
func (c *c18case) sig(v int, off int) string {
	var sb strings.Builder
	fmt.Fprintf(&sb, "%s len=%d off=%d", c.name(v), len(c.hay), off)
	switch c.fn {
	case fMemchr:
		fmt.Fprintf(&sb, " n1=0x%02x", c.n[0])
	case fMemchr2:
		fmt.Fprintf(&sb, " n1=0x%02x n2=0x%02x", c.n[0], c.n[1])
	case fMemchr3:
		fmt.Fprintf(&sb, " n1=0x%02x n2=0x%02x n3=0x%02x", c.n[0], c.n[1], c.n[2])
	case fPair:
		fmt.Fprintf(&sb, " b1=0x%02x b2=0x%02x offset=%d", c.n[0], c.n[1], c.ival)
	case fMemmem:
		fmt.Fprintf(&sb, " needle=%s", hex.EncodeToString(c.needle))
		if v == vSingle {
			fmt.Fprintf(&sb, " rareIdx=%d", c.ri1)
		}
		if v == vPaired {
			fmt.Fprintf(&sb, " idx1=%d idx2=%d", c.ri1, c.ri2)
		}
	case fDigitAt:
		fmt.Fprintf(&sb, " at=%d", c.ival)
	case fInTable, fNotInTable:
		fmt.Fprintf(&sb, " table=%s", c.tname)
	}
	h := c.hay
	if len(h) > 256 {
		fmt.Fprintf(&sb, " hay=%s..(%d bytes)", hex.EncodeToString(h[:256]), len(h))
	} else {
		fmt.Fprintf(&sb, " hay=%s", hex.EncodeToString(h))
	}
	return sb.String()
}

// ---------------------------------------------------------------------------
// Scalar specifications (the one-line definitions).
// ---------------------------------------------------------------------------

func specFirst(h []byte, p func(byte) bool) int {
	for i, b := range h {
		if p(b) {
			return i
		}
	}
	return -1
}

func specIsWord(b byte) bool {
	return b >= 'A' && b <= 'Z' || b >= 'a' && b <= 'z' || b >= '0' && b <= '9' || b == '_'
}
func specIsDigit(b byte) bool { return b >= '0' && b <= '9' }

func specMemmem(h, n []byte) int {
	for i := 0; i+len(n) <= len(h); i++ {
		ok := true
		for j := range n {
			if h[i+j] != n[j] {
				ok = false
				break
			}
		}
		if ok {
			return i
		}
	}
	return -1
}

func c18Spec(c *c18case, h []byte) int {
	switch c.fn {
	case fMemchr:
		return specFirst(h, func(b byte) bool { return b == c.n[0] })
	case fMemchr2:
		return specFirst(h, func(b byte) bool { return b == c.n[0] || b == c.n[1] })
	case fMemchr3:
		return specFirst(h, func(b byte) bool { return b == c.n[0] || b == c.n[1] || b == c.n[2] })
	case fPair:
		if c.ival < 0 {
			return -1
		}
		for i := 0; i+c.ival < len(h); i++ {
			if h[i] == c.n[0] && h[i+c.ival] == c.n[1] {
				return i
			}
		}
		return -1
	case fMemmem:
		return specMemmem(h, c.needle)
	case fDigit:
		return specFirst(h, specIsDigit)
	case fDigitAt:
		if c.ival < 0 || c.ival >= len(h) {
			return -1
		}
		for i := c.ival; i < len(h); i++ {
			if specIsDigit(h[i]) {
				return i
			}
		}
		return -1
	case fWord:
		return specFirst(h, specIsWord)
	case fNotWord:
		return specFirst(h, func(b byte) bool { return !specIsWord(b) })
	case fInTable:
		return specFirst(h, func(b byte) bool { return c.table[b] })
	case fNotInTable:
		return specFirst(h, func(b byte) bool { return !c.table[b] })
	case fIsASCII:
		if specFirst(h, func(b byte) bool { return b >= 0x80 }) < 0 {
			return 1
		}
		return 0
	case fCount:
		k := 0
		for _, b := range h {
			if b >= 0x80 {
				k++
			}
		}
		return k
	case fFirstNA:
		return specFirst(h, func(b byte) bool { return b >= 0x80 })
	}
	panic("c18Spec: bad fn")
}

func b2i(b bool) int {
	if b {
		return 1
	}
	return 0
}

// c18Call runs variant v of the primitive; ok=false when that variant does not exist.
func c18Call(c *c18case, v int, h []byte) (res int, ok bool) {
	switch v {
	case vPublic:
		switch c.fn {
		case fMemchr:
			return simd.Memchr(h, c.n[0]), true
		case fMemchr2:
			return simd.Memchr2(h, c.n[0], c.n[1]), true
		case fMemchr3:
			return simd.Memchr3(h, c.n[0], c.n[1], c.n[2]), true
		case fPair:
			return simd.MemchrPair(h, c.n[0], c.n[1], c.ival), true
		case fMemmem:
			return simd.Memmem(h, c.needle), true
		case fDigit:
			return simd.MemchrDigit(h), true
		case fDigitAt:
			return simd.MemchrDigitAt(h, c.ival), true
		case fWord:
			return simd.MemchrWord(h), true
		case fNotWord:
			return simd.MemchrNotWord(h), true
		case fInTable:
			return simd.MemchrInTable(h, c.table), true
		case fNotInTable:
			return simd.MemchrNotInTable(h, c.table), true
		case fIsASCII:
			return b2i(simd.IsASCII(h)), true
		case fCount:
			return simd.CountNonASCII(h), true
		case fFirstNA:
			return simd.FirstNonASCII(h), true
		}
	case vGeneric:
		switch c.fn {
		case fMemchr:
			return simd.VerifMemchrGeneric(h, c.n[0]), true
		case fMemchr2:
			return simd.VerifMemchr2Generic(h, c.n[0], c.n[1]), true
		case fMemchr3:
			return simd.VerifMemchr3Generic(h, c.n[0], c.n[1], c.n[2]), true
		case fPair:
			return simd.VerifMemchrPairGeneric(h, c.n[0], c.n[1], c.ival), true
		case fMemmem:
			if len(c.needle) >= 2 && len(c.needle) <= len(h) {
				return simd.VerifMemmemShort(h, c.needle), true
			}
		case fDigit:
			return simd.VerifMemchrDigitGeneric(h), true
		case fWord:
			return simd.VerifMemchrWordGeneric(h), true
		case fNotWord:
			return simd.VerifMemchrNotWordGeneric(h), true
		case fInTable:
			return simd.VerifMemchrInTableGeneric(h, c.table), true
		case fNotInTable:
			return simd.VerifMemchrNotInTableGeneric(h, c.table), true
		case fIsASCII:
			return b2i(simd.VerifIsASCIIGeneric(h)), true
		}
	case vSingle:
		if c.fn == fMemmem && len(c.needle) >= 2 && len(c.needle) <= len(h) {
			return simd.VerifMemmemSingle(h, c.needle, c.needle[c.ri1], c.ri1), true
		}
	case vPaired:
		if c.fn == fMemmem && len(c.needle) >= 2 && len(c.needle) <= len(h) &&
			c.ri1 != c.ri2 && c.needle[c.ri1] != c.needle[c.ri2] {
			info := simd.RareByteInfo{Byte1: c.needle[c.ri1], Index1: c.ri1, Byte2: c.needle[c.ri2], Index2: c.ri2}
			return simd.VerifMemmemPaired(h, c.needle, info), true
		}
	}
	return 0, false
}

// hasCoqGeneric: the generic variant is emitted as a separate Coq case (code 100+fn).
func hasCoqGeneric(fn int) bool {
	switch fn {
	case fMemchr, fMemchr2, fMemchr3, fPair, fDigit, fWord, fNotWord, fInTable, fNotInTable, fIsASCII:
		return true
	}
	return false
}

// ---------------------------------------------------------------------------
// The deterministic case stream.
// ---------------------------------------------------------------------------

func c18CaseRng(seed uint64, idx int) *rng { return newRng(seed*1000003 + uint64(idx)*7919 + 17) }

var c18Interesting = []byte{0, 1, 2, 0x7e, 0x7f, 0x80, 0x81, 0xfe, 0xff, 'a', 'z', '0', '9', '_', ' ', '\n'}

func pickByte(r *rng) byte {
	if r.chance(60) {
		return c18Interesting[r.intn(len(c18Interesting))]
	}
	return byte(r.intn(256))
}

// predSets splits the bytes into hits, misses and near-misses (misses at
// distance ±1 or one bit flip 0x01/0x80 from a hit).
func predSets(t *[256]bool) (hit, miss, near []byte) {
	for b := 0; b < 256; b++ {
		if t[b] {
			hit = append(hit, byte(b))
			continue
		}
		miss = append(miss, byte(b))
		for _, d := range []int{b + 1, b - 1, b ^ 1, b ^ 0x80} {
			if d >= 0 && d < 256 && t[d] {
				near = append(near, byte(b))
				break
			}
		}
	}
	return
}

// genPredHay: filler bytes that do not satisfy the predicate (half of them
// near-misses), a hit at pos (if pos >= 0 and the hit set is not empty), then
// arbitrary bytes.
func genPredHay(r *rng, n, pos int, t *[256]bool) []byte {
	hit, miss, near := predSets(t)
	h := make([]byte, n)
	fill := func(i int) byte {
		switch {
		case len(miss) == 0:
			return hit[r.intn(len(hit))]
		case len(near) > 0 && r.bool():
			return near[r.intn(len(near))]
		default:
			return miss[r.intn(len(miss))]
		}
	}
	end := n
	if pos >= 0 && len(hit) > 0 {
		end = pos
	}
	for i := 0; i < end; i++ {
		h[i] = fill(i)
	}
	if end < n {
		h[end] = hit[r.intn(len(hit))]
		mode := r.intn(3)
		for i := end + 1; i < n; i++ {
			switch mode {
			case 0:
				h[i] = byte(r.intn(256))
			case 1:
				h[i] = fill(i)
			default:
				if r.bool() {
					h[i] = hit[r.intn(len(hit))]
				} else {
					h[i] = fill(i)
				}
			}
		}
	}
	return h
}

type c18table struct {
	name string
	t    *[256]bool
}

func mkTable(name string, f func(b int) bool) c18table {
	var t [256]bool
	for b := 0; b < 256; b++ {
		t[b] = f(b)
	}
	return c18table{name, &t}
}

func c18Tables(seed uint64, thorough bool) []c18table {
	ts := []c18table{
		mkTable("none", func(int) bool { return false }),
		mkTable("all", func(int) bool { return true }),
		mkTable("only00", func(b int) bool { return b == 0 }),
		mkTable("onlyff", func(b int) bool { return b == 255 }),
		mkTable("allbut00", func(b int) bool { return b != 0 }),
		mkTable("allbut80", func(b int) bool { return b != 0x80 }),
		mkTable("high", func(b int) bool { return b >= 0x80 }),
		mkTable("low", func(b int) bool { return b < 0x80 }),
		mkTable("even", func(b int) bool { return b%2 == 0 }),
	}
	nr := 3
	if thorough {
		nr = 10
	}
	r := newRng(seed ^ 0x7ab1e)
	for k := 0; k < nr; k++ {
		dens := []int{1, 50, 99, 5, 95, 25, 75, 2, 98, 50}[k%10]
		var t [256]bool
		for b := range t {
			t[b] = r.chance(dens)
		}
		ts = append(ts, c18table{fmt.Sprintf("rand%d_%d", dens, k), &t})
	}
	return ts
}

func tableOf(f func(b byte) bool) *[256]bool {
	var t [256]bool
	for b := 0; b < 256; b++ {
		t[b] = f(byte(b))
	}
	return &t
}

var (
	c18DigitTable = tableOf(specIsDigit)
	c18WordTable  = tableOf(specIsWord)
	c18NotWordTbl = tableOf(func(b byte) bool { return !specIsWord(b) })
	c18HighTable  = tableOf(func(b byte) bool { return b >= 0x80 })
)

func notTable(t *[256]bool) *[256]bool {
	var u [256]bool
	for i := range t {
		u[i] = !t[i]
	}
	return &u
}

// c18Lengths returns the "every length" range and the sparse larger lengths.
func c18Lengths(thorough bool) (dense int, sparse []int) {
	if thorough {
		return 600, []int{1023, 1024, 1025, 4095, 4096, 4097, 8191, 8192, 8193, 65535, 65536, 65537, 70001}
	}
	return 200, []int{255, 256, 257, 511, 512, 513, 1023, 1024, 1025, 4095, 4096, 4097}
}

// positions to plant a hit at for a sparse (large) length
func sparsePositions(r *rng, n, reach int) []int {
	ps := []int{-1}
	for _, p := range []int{0, 1, 31, 32, 33, 63, 64, 65, n / 2, n - 66, n - 65, n - 64, n - 33, n - 32, n - 31, n - 17, n - 16, n - 15, n - 9, n - 8, n - 7, n - 2, n - 1} {
		if p >= 0 && p < reach {
			ps = append(ps, p)
		}
	}
	for k := 0; k < 4; k++ {
		if reach > 0 {
			ps = append(ps, r.intn(reach))
		}
	}
	return ps
}

// c18Gen enumerates the whole case stream; visit is called with a case whose
// idx is its sequence number.  The stream depends only on (seed, thorough).
func c18Gen(seed uint64, thorough bool, visit func(c *c18case)) {
	idx := 0
	emit := func(c *c18case) {
		c.idx = idx
		visit(c)
		idx++
	}
	dense, sparse := c18Lengths(thorough)

	// --- predicate families -------------------------------------------------
	type predFam struct {
		fn    int
		fam   string
		setup func(r *rng, c *c18case) *[256]bool // fills needles/table, returns the predicate table
	}
	fams := []predFam{
		{fMemchr, "memchr", func(r *rng, c *c18case) *[256]bool {
			c.n[0] = pickByte(r)
			return tableOf(func(b byte) bool { return b == c.n[0] })
		}},
		{fMemchr2, "memchr2", func(r *rng, c *c18case) *[256]bool {
			c.n[0] = pickByte(r)
			switch r.intn(4) {
			case 0:
				c.n[1] = c.n[0]
			case 1:
				c.n[1] = c.n[0] ^ 1
			default:
				c.n[1] = pickByte(r)
			}
			return tableOf(func(b byte) bool { return b == c.n[0] || b == c.n[1] })
		}},
		{fMemchr3, "memchr3", func(r *rng, c *c18case) *[256]bool {
			c.n[0] = pickByte(r)
			c.n[1] = pickByte(r)
			switch r.intn(4) {
			case 0:
				c.n[2] = c.n[0]
			case 1:
				c.n[2] = c.n[1] ^ 0x80
			default:
				c.n[2] = pickByte(r)
			}
			return tableOf(func(b byte) bool { return b == c.n[0] || b == c.n[1] || b == c.n[2] })
		}},
		{fDigit, "digit", func(r *rng, c *c18case) *[256]bool { return c18DigitTable }},
		{fDigitAt, "digitat", func(r *rng, c *c18case) *[256]bool { return c18DigitTable }},
		{fWord, "word", func(r *rng, c *c18case) *[256]bool { return c18WordTable }},
		{fNotWord, "notword", func(r *rng, c *c18case) *[256]bool { return c18NotWordTbl }},
		{fIsASCII, "isascii", func(r *rng, c *c18case) *[256]bool { return c18HighTable }},
		{fCount, "count", func(r *rng, c *c18case) *[256]bool { return c18HighTable }},
		{fFirstNA, "firstna", func(r *rng, c *c18case) *[256]bool { return c18HighTable }},
	}
	for _, tb := range c18Tables(seed, thorough) {
		tb := tb
		fams = append(fams,
			predFam{fInTable, "intable", func(r *rng, c *c18case) *[256]bool {
				c.table, c.tname = tb.t, tb.name
				return tb.t
			}},
			predFam{fNotInTable, "notintable", func(r *rng, c *c18case) *[256]bool {
				c.table, c.tname = tb.t, tb.name
				return notTable(tb.t)
			}})
	}
	onePred := func(f predFam, n, pos int) {
		r := c18CaseRng(seed, idx)
		c := &c18case{fn: f.fn, fam: f.fam, pos: pos}
		t := f.setup(r, c)
		c.hay = genPredHay(r, n, pos, t)
		hit, miss, _ := predSets(t)
		// poison around the slice: bytes that WOULD be a hit, so that an
		// over-read changes the answer
		if len(hit) > 0 {
			c.poisA, c.poisB = hit[r.intn(len(hit))], hit[r.intn(len(hit))]
		} else {
			c.poisA, c.poisB = miss[0], miss[0]
		}
		if f.fn == fDigitAt {
			choices := []int{0, pos, pos + 1, pos - 1, n - 1, n, n + 1, -1, r.intn(n + 1)}
			c.ival = choices[r.intn(len(choices))]
		}
		emit(c)
	}
	for _, f := range fams {
		for n := 0; n <= dense; n++ {
			for pos := -1; pos < n; pos++ {
				onePred(f, n, pos)
			}
		}
		for _, n := range sparse {
			r := c18CaseRng(seed, idx)
			for _, pos := range sparsePositions(r, n, n) {
				onePred(f, n, pos)
			}
		}
	}

	// --- MemchrPair -----------------------------------------------------------
	onePair := func(n, off, pos int, random bool) {
		r := c18CaseRng(seed, idx)
		c := &c18case{fn: fPair, fam: "pair", pos: pos, ival: off}
		b1 := pickByte(r)
		var b2 byte
		switch r.intn(5) {
		case 0:
			b2 = b1
		case 1:
			b2 = b1 ^ 1
		case 2:
			b2 = b1 + 1
		default:
			b2 = pickByte(r)
		}
		c.n[0], c.n[1] = b1, b2
		c.poisA, c.poisB = b2, b1
		h := make([]byte, n)
		alpha := []byte{b1, b1 ^ 1, b2 ^ 1, b2 ^ 0x80, b1 + 1, b1 - 1, b2 + 1, byte(r.intn(256))}
		if random {
			c.fam = "pair-random"
			alpha = []byte{b1, b2, b1 ^ 1, b2 ^ 1}
			if r.bool() {
				alpha = []byte{b1, b2}
			}
			for i := range h {
				h[i] = alpha[r.intn(len(alpha))]
			}
		} else {
			// filler without b2: no pair can match inside it
			var fillers []byte
			for _, a := range alpha {
				if a != b2 {
					fillers = append(fillers, a)
				}
			}
			if len(fillers) == 0 {
				fillers = []byte{b2 ^ 0x55}
			}
			for i := range h {
				h[i] = fillers[r.intn(len(fillers))]
			}
			if pos >= 0 && off >= 0 && pos+off < n {
				h[pos+off] = b2
				h[pos] = b1
				tail := []byte{b1, b2, b1 ^ 1, byte(r.intn(256))}
				for i := pos + off + 1; i < n; i++ {
					h[i] = tail[r.intn(len(tail))]
				}
			}
		}
		c.hay = h
		emit(c)
	}
	pairOffsets := func(n int) []int {
		cand := []int{-1, 0, 1, 2, 3, 5, 7, 8, 9, 15, 16, 17, 31, 32, 33, n - 33, n - 32, n - 9, n - 8, n - 2, n - 1, n, n + 1}
		seen := map[int]bool{}
		var out []int
		for _, o := range cand {
			if o >= -1 && !seen[o] {
				seen[o] = true
				out = append(out, o)
			}
		}
		return out
	}
	for n := 0; n <= dense; n++ {
		for _, off := range pairOffsets(n) {
			if off < 0 || off >= n {
				onePair(n, off, -1, false)
				onePair(n, off, -1, true)
				continue
			}
			for pos := -1; pos+off < n; pos++ {
				onePair(n, off, pos, false)
			}
			for k := 0; k < 4; k++ {
				onePair(n, off, -1, true)
			}
		}
	}
	for _, n := range sparse {
		for _, off := range []int{0, 1, 2, 7, 8, 31, 32, 33, 64, n - 1} {
			r := c18CaseRng(seed, idx)
			for _, pos := range sparsePositions(r, n, n-off) {
				onePair(n, off, pos, false)
			}
			onePair(n, off, -1, true)
		}
	}

	// --- Memmem ---------------------------------------------------------------
	needleLens := []int{0, 1, 2, 3, 4, 5, 6, 7, 8, 9, 15, 16, 17, 31, 32, 33, 34, 48, 64, 65}
	oneMem := func(n, nl, pos int) {
		r := c18CaseRng(seed, idx)
		c := &c18case{fn: fMemmem, fam: "memmem", pos: pos}
		needle := make([]byte, nl)
		kind := r.intn(5)
		switch kind {
		case 0: // random bytes
			for i := range needle {
				needle[i] = byte(r.intn(256))
			}
		case 1: // two-letter alphabet
			a, b := pickByte(r), pickByte(r)
			for i := range needle {
				needle[i] = a
				if r.chance(30) {
					needle[i] = b
				}
			}
		case 2: // periodic
			p := 1 + r.intn(3)
			for i := range needle {
				needle[i] = "abcab"[i%p]
			}
		case 3: // text with one rare byte somewhere
			for i := range needle {
				needle[i] = "etaoin shrdlu"[r.intn(13)]
			}
			if nl > 0 {
				needle[r.intn(nl)] = []byte{'q', 'Z', 0, 0xff, '@'}[r.intn(5)]
			}
		default: // all the same byte
			a := pickByte(r)
			for i := range needle {
				needle[i] = a
			}
		}
		c.needle = needle
		// filler from the needle's own bytes (many partial matches) or random
		h := make([]byte, n)
		fmode := r.intn(3)
		for i := range h {
			switch {
			case nl > 0 && fmode == 0:
				h[i] = needle[r.intn(nl)]
			case nl > 0 && fmode == 1 && r.bool():
				h[i] = needle[r.intn(nl)]
			default:
				h[i] = byte(r.intn(256))
			}
		}
		if pos >= 0 && pos+nl <= n {
			copy(h[pos:], needle)
		} else if nl > 1 && n > 0 && r.bool() {
			// no planted hit: a truncated needle at the very end (near miss)
			k := nl - 1
			if k > n {
				k = n
			}
			copy(h[n-k:], needle[:k])
		}
		c.hay = h
		if nl > 0 {
			c.poisA, c.poisB = needle[nl-1], needle[0]
			c.ri1 = r.intn(nl)
			c.ri2 = r.intn(nl)
		}
		emit(c)
	}
	for n := 0; n <= dense; n++ {
		// four needle lengths per haystack length, rotating through the list
		for k := 0; k < 4; k++ {
			nl := needleLens[(n*4+k)%len(needleLens)]
			if nl > n {
				oneMem(n, nl, -1)
				continue
			}
			for pos := -1; pos+nl <= n; pos++ {
				oneMem(n, nl, pos)
			}
		}
	}
	for _, n := range sparse {
		for _, nl := range []int{1, 2, 3, 6, 7, 16, 32, 33, 65} {
			r := c18CaseRng(seed, idx)
			for _, pos := range sparsePositions(r, n, n-nl+1) {
				oneMem(n, nl, pos)
			}
		}
	}
}

// ---------------------------------------------------------------------------
// Placement of the haystack in memory.
// ---------------------------------------------------------------------------

// arena is a heap buffer whose usable part starts at a 64-byte aligned address.
type arena struct {
	buf  []byte
	base int
}

func newArena(maxLen int) *arena {
	a := &arena{buf: make([]byte, maxLen+4*64+64)}
	p := uintptr(unsafe.Pointer(&a.buf[0]))
	a.base = int((64-p%64)%64) + 64
	return a
}

// place copies h at alignment offset off (address = 64k+off) between poison bytes.
func (a *arena) place(h []byte, off int, before, after byte) []byte {
	start := a.base + off
	lo := a.base - 64
	hi := start + len(h) + 64
	if hi > len(a.buf) {
		hi = len(a.buf)
	}
	for i := lo; i < start; i++ {
		a.buf[i] = before
	}
	copy(a.buf[start:], h)
	for i := start + len(h); i < hi; i++ {
		a.buf[i] = after
	}
	return a.buf[start : start+len(h) : start+len(h)]
}

// guarded is an mmap'ed region [PROT_NONE page][data pages][PROT_NONE page].
type guarded struct {
	all  []byte
	data []byte
}

func newGuarded(maxLen int) (*guarded, error) {
	ps := os.Getpagesize()
	pages := (maxLen+ps-1)/ps + 1
	all, err := unix.Mmap(-1, 0, (pages+2)*ps, unix.PROT_READ|unix.PROT_WRITE, unix.MAP_ANON|unix.MAP_PRIVATE)
	if err != nil {
		return nil, err
	}
	if err := unix.Mprotect(all[:ps], unix.PROT_NONE); err != nil {
		return nil, err
	}
	if err := unix.Mprotect(all[(pages+1)*ps:], unix.PROT_NONE); err != nil {
		return nil, err
	}
	return &guarded{all: all, data: all[ps : (pages+1)*ps : (pages+1)*ps]}, nil
}

// placeEnd: the slice ends exactly where the trailing PROT_NONE page starts.
func (g *guarded) placeEnd(h []byte, before byte) []byte {
	n := len(g.data)
	lo := n - len(h) - 128
	if lo < 0 {
		lo = 0
	}
	for i := lo; i < n-len(h); i++ {
		g.data[i] = before
	}
	copy(g.data[n-len(h):], h)
	return g.data[n-len(h) : n : n]
}

// placeStart: the slice starts exactly where the leading PROT_NONE page ends.
func (g *guarded) placeStart(h []byte, after byte) []byte {
	copy(g.data, h)
	hi := len(h) + 128
	if hi > len(g.data) {
		hi = len(g.data)
	}
	for i := len(h); i < hi; i++ {
		g.data[i] = after
	}
	return g.data[:len(h):len(h)]
}

// ---------------------------------------------------------------------------
// Running one case.
// ---------------------------------------------------------------------------

type c18runner struct {
	st     *stats
	evals  int
	report func(v violation)
}

// callGuarded runs the call and converts a fault (SetPanicOnFault) or a Go
// panic (index out of range in the pure-Go code) into ok=false.
func callGuarded(c *c18case, v int, h []byte) (res int, exists bool, fault string) {
	defer func() {
		if e := recover(); e != nil {
			fault = fmt.Sprint(e)
		}
	}()
	res, exists = c18Call(c, v, h)
	return
}

func (rn *c18runner) check(c *c18case, v int, h []byte, off int, where string) (int, bool) {
	got, exists, fault := callGuarded(c, v, h)
	if !exists && fault == "" {
		return 0, false
	}
	rn.evals++
	want := c18Spec(c, c.hay)
	if fault != "" {
		rn.report(violation{
			Kind: "c18-fault", Case: c.idx, Sig: c.sig(v, off),
			Detail:   map[string]any{"fn": c.name(v), "placement": where, "family": c.fam, "fault": fault},
			Expected: fmt.Sprint(want), Got: "fault: " + fault,
		})
		return 0, true
	}
	if got != want {
		rn.report(violation{
			Kind: "c18-vs-spec", Case: c.idx, Sig: c.sig(v, off),
			Detail:   map[string]any{"fn": c.name(v), "placement": where, "family": c.fam, "planted": c.pos},
			Expected: fmt.Sprint(want), Got: fmt.Sprint(got),
		})
	}
	return got, true
}

var c18Variants = []int{vPublic, vGeneric, vSingle, vPaired}

// ---------------------------------------------------------------------------
// Child process: guard pages / AVX2 masked off.
// ---------------------------------------------------------------------------

type c18childLine struct {
	V     *violation `json:"v,omitempty"`
	Done  bool       `json:"done,omitempty"`
	Evals int        `json:"evals,omitempty"`
	AVX2  bool       `json:"avx2"`
}

func c18Child(args []string) int {
	fs := flag.NewFlagSet("c18-child", flag.ExitOnError)
	seed := fs.Uint64("seed", 1, "")
	tier := fs.String("tier", "quick", "")
	mode := fs.String("mode", "guard", "guard|noavx")
	progress := fs.String("progress", "", "file receiving the index of the case being run")
	fs.Parse(args)
	thorough := *tier == "thorough"

	out := bufio.NewWriter(os.Stdout)
	enc := json.NewEncoder(out)
	nviol := 0
	rn := &c18runner{report: func(v violation) {
		if nviol < 200 {
			enc.Encode(c18childLine{V: &v})
			out.Flush()
		}
		nviol++
	}}

	// progress word shared with the parent through a MAP_SHARED file
	var prog []byte
	if *progress != "" {
		f, err := os.OpenFile(*progress, os.O_RDWR|os.O_CREATE|os.O_TRUNC, 0o644)
		if err != nil {
			fatal("c18-child: %v", err)
		}
		f.Truncate(16)
		prog, err = unix.Mmap(int(f.Fd()), 0, 16, unix.PROT_READ|unix.PROT_WRITE, unix.MAP_SHARED)
		if err != nil {
			fatal("c18-child: mmap progress: %v", err)
		}
		f.Close()
	}
	setProgress := func(idx, v int) {
		if prog != nil {
			*(*int64)(unsafe.Pointer(&prog[0])) = int64(idx)
			*(*int64)(unsafe.Pointer(&prog[8])) = int64(v)
		}
	}

	_, sparse := c18Lengths(thorough)
	maxLen := sparse[len(sparse)-1]
	switch *mode {
	case "guard":
		debug.SetPanicOnFault(true)
		g, err := newGuarded(maxLen)
		if err != nil {
			fatal("c18-child: mmap: %v", err)
		}
		c18Gen(*seed, thorough, func(c *c18case) {
			for _, v := range c18Variants {
				setProgress(c.idx, v)
				rn.check(c, v, g.placeEnd(c.hay, c.poisB), -1, "guard-end")
				rn.check(c, v, g.placeStart(c.hay, c.poisA), -2, "guard-start")
			}
		})
	case "noavx":
		a := newArena(maxLen)
		c18Gen(*seed, thorough, func(c *c18case) {
			setProgress(c.idx, vPublic)
			off := c.idx % 64
			rn.check(c, vPublic, a.place(c.hay, off, c.poisB, c.poisA), off, "heap-noavx")
		})
	default:
		fatal("c18-child: bad mode %q", *mode)
	}
	enc.Encode(c18childLine{Done: true, Evals: rn.evals, AVX2: c18HasAVX2()})
	out.Flush()
	return 0
}

// c18HasAVX2 reports the dispatch outcome actually taken by the library: with
// AVX2 the public Memchr and the generic one are different code, which we can
// only observe indirectly; report the CPU flag as x/sys/cpu sees it.
func c18HasAVX2() bool { return cpu.X86.HasAVX2 }

// runChild re-executes the harness; returns the number of evaluations.
func c18RunChild(st *stats, seed uint64, tier, mode string, env []string) {
	exe, err := os.Executable()
	if err != nil {
		fatal("c18: %v", err)
	}
	progFile := fmt.Sprintf(".c18-progress-%s-%d", mode, os.Getpid())
	defer os.Remove(progFile)
	cmd := exec.Command(exe, "c18-child", "-seed", fmt.Sprint(seed), "-tier", tier, "-mode", mode, "-progress", progFile)
	cmd.Env = append(os.Environ(), env...)
	var stdout, stderr bytes.Buffer
	cmd.Stdout, cmd.Stderr = &stdout, &stderr
	t0 := time.Now()
	runErr := cmd.Run()
	done := false
	sc := bufio.NewScanner(&stdout)
	sc.Buffer(make([]byte, 1<<20), 1<<26)
	for sc.Scan() {
		var l c18childLine
		if json.Unmarshal(sc.Bytes(), &l) != nil {
			continue
		}
		if l.V != nil {
			l.V.Detail["process"] = "child:" + mode
			st.violate(*l.V)
		}
		if l.Done {
			done = true
			st.Evaluations += l.Evals
			st.Extra["child_"+mode+"_evaluations"] = l.Evals
			st.Extra["child_"+mode+"_avx2"] = l.AVX2
		}
	}
	st.Extra["child_"+mode+"_seconds"] = time.Since(t0).Seconds()
	if runErr != nil || !done {
		// the child died: find the case it was running
		idx, v := -1, 0
		if b, err := os.ReadFile(progFile); err == nil && len(b) >= 16 {
			idx = int(*(*int64)(unsafe.Pointer(&b[0])))
			v = int(*(*int64)(unsafe.Pointer(&b[8])))
		}
		sig := fmt.Sprintf("child %s crashed at case %d", mode, idx)
		detail := map[string]any{"mode": mode, "error": fmt.Sprint(runErr), "stderr_tail": tailString(stderr.String(), 1500)}
		if idx >= 0 {
			c18Gen(seed, tier == "thorough", func(c *c18case) {
				if c.idx == idx {
					sig = c.sig(v, -1) + " [crash in " + mode + " child]"
					detail["fn"] = c.name(v)
				}
			})
		}
		st.violate(violation{Kind: "c18-crash", Case: idx, Sig: sig, Detail: detail, Expected: "no fault", Got: "process died"})
	}
}

func tailString(s string, n int) string {
	if len(s) > n {
		return s[len(s)-n:]
	}
	return s
}

// ---------------------------------------------------------------------------
// Main.
// ---------------------------------------------------------------------------

type coqCand struct {
	cid  int
	code int
	c    c18case
	obs  int
}

func c18Main(args []string) int {
	fs := flag.NewFlagSet("c18", flag.ExitOnError)
	seed := fs.Uint64("seed", 1, "PRNG seed")
	tier := fs.String("tier", "quick", "quick|thorough")
	outPath := fs.String("out", "cases.v", "Coq case file")
	statsPath := fs.String("stats", "stats.json", "stats file")
	nCoq := fs.Int("n", 1150, "maximal number of Coq cases")
	noChild := fs.Bool("nochild", false, "skip the guard-page and no-AVX2 child processes")
	fs.Parse(args)
	thorough := *tier == "thorough"
	if *nCoq > 1200 && !thorough {
		*nCoq = 1200
	}

	st := newStats("C18", *seed)
	st.Rule = "every public simd primitive and every pure-Go generic path = its scalar definition; lengths 0..N dense, hit at every index / none, near-miss filler, alignment 0..63, guard pages before/after, AVX2 on and masked off"
	t0 := time.Now()
	rn := &c18runner{st: st, report: st.violate}
	distinct := map[uint64]struct{}{}
	_, sparse := c18Lengths(thorough)
	a := newArena(sparse[len(sparse)-1])

	// Coq case selection: per function code and per haystack length, a small reservoir.
	special := map[int]bool{0: true, 1: true, 7: true, 8: true, 9: true, 15: true, 16: true, 17: true, 31: true, 32: true, 33: true, 63: true, 64: true, 65: true}
	type bucket struct {
		seen  int
		items []coqCand
	}
	buckets := map[[2]int]*bucket{}
	selRng := newRng(*seed ^ 0xc0c0)
	codes := map[int]bool{}
	offer := func(code int, c *c18case, obs int) {
		n := len(c.hay)
		if n > 80 || len(c.needle) > 70 {
			return
		}
		key := [2]int{code, n}
		capacity := 3
		if !special[n] {
			key = [2]int{code, -1}
			capacity = 6
		}
		codes[code] = true
		b := buckets[key]
		if b == nil {
			b = &bucket{}
			buckets[key] = b
		}
		b.seen++
		cand := coqCand{cid: 2*c.idx + b2i(code > 100), code: code, c: *c, obs: obs}
		if len(b.items) < capacity {
			b.items = append(b.items, cand)
		} else if j := selRng.intn(b.seen); j < capacity {
			b.items[j] = cand
		}
	}

	c18Gen(*seed, thorough, func(c *c18case) {
		st.hist(c.fam)
		if len(c.hay) > 0 && len(distinct) < 4_000_000 {
			distinct[c18Hash(c)] = struct{}{}
		}
		if c.idx%50021 == 0 {
			st.sample(map[string]any{"case": c.idx, "sig": c.sig(vPublic, 0), "spec": c18Spec(c, c.hay)})
		}
		// alignment offsets: all 64 for the boundary hit positions, two otherwise
		offs := []int{0, 1 + c.idx%63}
		if len(c.hay) <= 4200 && (c.pos <= 0 || c.pos >= len(c.hay)-1 || c.pos == len(c.hay)/2) {
			offs = offs[:0]
			for k := 0; k < 64; k++ {
				offs = append(offs, k)
			}
		}
		for _, off := range offs {
			h := a.place(c.hay, off, c.poisB, c.poisA)
			got, _ := rn.check(c, vPublic, h, off, "heap")
			if off == 0 {
				offer(c.fn, c, got)
			}
		}
		for _, v := range c18Variants[1:] {
			off := c.idx % 64
			h := a.place(c.hay, off, c.poisB, c.poisA)
			got, ok := rn.check(c, v, h, off, "heap")
			if ok && v == vGeneric && hasCoqGeneric(c.fn) {
				offer(100+c.fn, c, got)
			}
		}
	})
	st.Evaluations = rn.evals
	st.Distinct = len(distinct)
	st.Extra["parent_seconds"] = time.Since(t0).Seconds()
	st.Extra["parent_avx2"] = c18HasAVX2()

	// nil table: documented to return -1
	if simd.MemchrInTable([]byte("abc"), nil) != -1 || simd.MemchrNotInTable([]byte("abc"), nil) != -1 {
		st.violate(violation{Kind: "c18-vs-spec", Case: -1, Sig: "MemchrInTable/NotInTable nil table", Detail: map[string]any{}, Expected: "-1", Got: "other"})
	}

	if !*noChild {
		c18RunChild(st, *seed, *tier, "guard", nil)
		c18RunChild(st, *seed, *tier, "noavx", []string{"GODEBUG=cpu.avx2=off"})
		if v, ok := st.Extra["child_noavx_avx2"].(bool); ok && v {
			st.Notes = append(st.Notes, "GODEBUG=cpu.avx2=off did not mask AVX2 in the child; the non-vector dispatch outcome of the public API was exercised only through the generic hooks")
		}
	}

	// --- Coq case file ------------------------------------------------------
	var keys [][2]int
	for k := range buckets {
		keys = append(keys, k)
	}
	sort.Slice(keys, func(i, j int) bool {
		if keys[i][0] != keys[j][0] {
			return keys[i][0] < keys[j][0]
		}
		return keys[i][1] < keys[j][1]
	})
	var chosen []coqCand
	perCode := *nCoq / max(1, len(codes))
	used := map[int]int{}
	for _, k := range keys {
		for _, it := range buckets[k].items {
			if used[it.code] < perCode {
				used[it.code]++
				chosen = append(chosen, it)
			}
		}
	}
	var sb strings.Builder
	sb.WriteString("From CV Require Import Swar.\nFrom Coq Require Import List NArith ZArith.\nImport ListNotations.\nOpen Scope N_scope.\n")
	fmt.Fprintf(&sb, "(* harness c18 -seed %d -tier %s: %d cases; cid = 2*stream index (+1 for the generic variant) *)\n", *seed, *tier, len(chosen))
	sb.WriteString("Definition cases : list case := [\n")
	for i, it := range chosen {
		if i > 0 {
			sb.WriteString(";\n")
		}
		fmt.Fprintf(&sb, " mk_case %d %d %s %s %s%%Z", it.cid, it.code, coqBytes(it.c.hay), c18CoqArgs(&it.c), coqZ(it.obs))
	}
	sb.WriteString("\n].\nDefinition M := Eval vm_compute in mismatches cases.\nPrint M.\n")
	if err := os.WriteFile(*outPath, []byte(sb.String()), 0o644); err != nil {
		fatal("c18: %v", err)
	}
	st.CoqCases = len(chosen)
	st.Extra["seconds"] = time.Since(t0).Seconds()
	st.write(*statsPath)
	fmt.Fprintf(os.Stderr, "c18: %d evaluations, %d stream cases, %d coq cases, %d violations, %.1fs\n",
		st.Evaluations, sumHist(st.Histogram), st.CoqCases, len(st.Violations), time.Since(t0).Seconds())
	return 0
}

func sumHist(m map[string]int) int {
	s := 0
	for _, v := range m {
		s += v
	}
	return s
}

func c18Hash(c *c18case) uint64 {
	h := uint64(14695981039346656037)
	mix := func(b byte) { h = (h ^ uint64(b)) * 1099511628211 }
	mix(byte(c.fn))
	mix(c.n[0])
	mix(c.n[1])
	mix(c.n[2])
	mix(byte(c.ival))
	mix(byte(c.ival >> 8))
	for _, b := range c.tname {
		mix(byte(b))
	}
	for _, b := range c.needle {
		mix(b)
	}
	mix(0xfe)
	for _, b := range c.hay {
		mix(b)
	}
	return h
}

// c18CoqArgs renders case.cargs (see the table above check_case in Swar.v).
func c18CoqArgs(c *c18case) string {
	signed := func(v int) []byte {
		if v < 0 {
			return []byte{byte(-v), 1}
		}
		return []byte{byte(v), 0}
	}
	switch c.fn {
	case fMemchr:
		return coqBytes(c.n[:1])
	case fMemchr2:
		return coqBytes(c.n[:2])
	case fMemchr3:
		return coqBytes(c.n[:3])
	case fPair:
		return coqBytes(append([]byte{c.n[0], c.n[1]}, signed(c.ival)...))
	case fMemmem:
		return coqBytes(c.needle)
	case fDigitAt:
		return coqBytes(signed(c.ival))
	case fInTable, fNotInTable:
		var members []byte
		for b := 0; b < 256; b++ {
			if c.table[b] {
				members = append(members, byte(b))
			}
		}
		return coqBytes(members)
	}
	return "[]"
}
