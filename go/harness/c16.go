//go:build verif

// Sub-command c16: property C16 -- prefilters never skip a match and "complete"
// prefilters are exact.
//
// Every prefilter kind is built through the public API, run on structured
// haystacks (every length, hits at block boundaries, all start offsets, several
// alignments) and compared with the naive definition
//
//	min{ i >= s : some literal is a prefix of h[i:] }
//
// (the line-anchor wrapper and the tracker are compared with their own documented
// contract).  Complete prefilters are additionally compared with the
// leftmost-first span of the alternation of the literals (own oracle, and Go's
// regexp where the literals are ASCII).  The unexported scalar paths and the
// candidate finders are reached through /repo/prefilter/verif_export.go.
package main

import (
	"bytes"
	"crypto/sha256"
	"encoding/hex"
	"flag"
	"fmt"
	"os"
	"regexp"
	"sort"
	"strconv"
	"strings"
	"time"
	"unsafe"

	"github.com/coregx/coregex/literal"
	"github.com/coregx/coregex/prefilter"
)

func init() { register("c16", c16Main) }

// contracts
const (
	c16Min        = iota // pf_find
	c16LineAnchor        // first occurrence at a line start
	c16Digit             // first ASCII digit
)

// Coq api codes (Teddy.v, Record case)
const (
	c16ApiFind = iota
	c16ApiFindMatch
	c16ApiScalar
	c16ApiMatchScalar
	c16ApiOther
	c16ApiLine
	c16ApiDigit
)

type c16PF struct {
	idx      int
	kind     string
	pf       prefilter.Prefilter
	lits     [][]byte
	contract int
	slim     *prefilter.Teddy
	fat      *prefilter.FatTeddy
	cfgfp    int
	ascii    bool
	re       *regexp.Regexp
	dumpName string
	cases    []c16Case // reservoir of Coq cases
	seen     int
}

type c16Case struct {
	pf       *c16PF
	hay      []byte
	start    int
	api      int
	obsStart int
	obsEnd   int
	bad      bool // Go-side oracle disagreed
}

type c16Ctx struct {
	st       *stats
	r        *rng
	tier     string
	evals    int
	distinct distinctSet
	viol     map[string]*violation // one (smallest) example per kind+prefilter
	violN    map[string]int
	caseIdx  int
	deadline time.Time
}

// ---------------------------------------------------------------------------
// literal sets
// ---------------------------------------------------------------------------

var c16Alphabets = []string{"abc", "abcd", "abq", "aAq1", "ab\n", "a1b2", "xyz\x80"}

func c16RandLit(r *rng, alpha string, minLen, maxLen int) []byte {
	n := minLen + r.intn(maxLen-minLen+1)
	b := make([]byte, n)
	for i := range b {
		if r.chance(4) {
			b[i] = byte(r.intn(256))
		} else {
			b[i] = alpha[r.intn(len(alpha))]
		}
	}
	return b
}

// c16GenLits produces n literals with shared prefixes, shared nibbles, near
// misses and prefix relations between them.
func c16GenLits(r *rng, n, minLen, maxLen int, allowDup bool) [][]byte {
	alpha := c16Alphabets[r.intn(len(c16Alphabets))]
	if r.chance(60) {
		alpha = c16Alphabets[r.intn(2)]
	}
	seen := map[string]bool{}
	var out [][]byte
	tries := 0
	for len(out) < n && tries < 50*n+100 {
		tries++
		var l []byte
		mode := r.intn(10)
		switch {
		case len(out) == 0 || mode < 3:
			l = c16RandLit(r, alpha, minLen, maxLen)
		case mode < 5: // near miss: one byte changed
			base := out[r.intn(len(out))]
			l = append([]byte(nil), base...)
			k := r.intn(len(l))
			switch r.intn(3) {
			case 0:
				l[k] ^= 0x10 // same low nibble, other high nibble
			case 1:
				l[k] ^= 0x01 // same high nibble, other low nibble
			default:
				l[k] = alpha[r.intn(len(alpha))]
			}
		case mode < 7: // shared prefix, other tail
			base := out[r.intn(len(out))]
			k := 1 + r.intn(len(base))
			l = append([]byte(nil), base[:k]...)
			for len(l) < minLen || (len(l) < maxLen && r.chance(50)) {
				l = append(l, alpha[r.intn(len(alpha))])
			}
		case mode < 8: // proper prefix of another literal
			base := out[r.intn(len(out))]
			if len(base) > minLen {
				l = append([]byte(nil), base[:minLen+r.intn(len(base)-minLen)]...)
			} else {
				l = c16RandLit(r, alpha, minLen, maxLen)
			}
		case mode < 9: // extension of another literal
			base := out[r.intn(len(out))]
			l = append([]byte(nil), base...)
			if len(l) < maxLen {
				l = append(l, alpha[r.intn(len(alpha))])
			}
		default: // swapped first two bytes (fingerprint permutation)
			base := out[r.intn(len(out))]
			l = append([]byte(nil), base...)
			if len(l) >= 2 {
				l[0], l[1] = l[1], l[0]
			}
		}
		if len(l) < minLen || len(l) > maxLen+1 {
			continue
		}
		if seen[string(l)] && !(allowDup && r.chance(10)) {
			continue
		}
		seen[string(l)] = true
		out = append(out, l)
	}
	for len(out) < n { // alphabet exhausted: fill with counters
		l := []byte(fmt.Sprintf("%s%03d", alpha[:1], len(out)))
		for len(l) < minLen {
			l = append(l, 'z')
		}
		out = append(out, l)
	}
	return out
}

func c16Seq(lits [][]byte, complete []bool) *literal.Seq {
	ls := make([]literal.Literal, len(lits))
	for i, l := range lits {
		ls[i] = literal.NewLiteral(append([]byte(nil), l...), complete[i])
	}
	return literal.NewSeq(ls...)
}

func c16IsASCII(lits [][]byte) bool {
	for _, l := range lits {
		for _, c := range l {
			if c >= 0x80 {
				return false
			}
		}
	}
	return true
}

func c16LitsString(lits [][]byte) string {
	parts := make([]string, len(lits))
	for i, l := range lits {
		parts[i] = hex.EncodeToString(l)
	}
	return strings.Join(parts, ",")
}

func c16LitsReadable(lits [][]byte) string {
	parts := make([]string, len(lits))
	for i, l := range lits {
		parts[i] = strconv.Quote(string(l))
	}
	return strings.Join(parts, "|")
}

// ---------------------------------------------------------------------------
// oracle
// ---------------------------------------------------------------------------

type c16Oracle struct {
	first  []int // first[i] = index of the first literal (in order) that is a prefix of h[i:], or -1
	next   []int // next[i] = min{ j >= i : first[j] >= 0 } or -1            (i in 0..n)
	nextLS []int // same restricted to line starts
	nextD  []int // next ASCII digit
}

func c16MakeOracle(lits [][]byte, h []byte) *c16Oracle {
	n := len(h)
	o := &c16Oracle{first: make([]int, n+1), next: make([]int, n+2), nextLS: make([]int, n+2), nextD: make([]int, n+2)}
	for i := 0; i <= n; i++ {
		o.first[i] = -1
		for k, l := range lits {
			if bytes.HasPrefix(h[i:], l) {
				o.first[i] = k
				break
			}
		}
	}
	o.next[n+1], o.nextLS[n+1], o.nextD[n+1] = -1, -1, -1
	for i := n; i >= 0; i-- {
		o.next[i], o.nextLS[i], o.nextD[i] = o.next[i+1], o.nextLS[i+1], o.nextD[i+1]
		if o.first[i] >= 0 {
			o.next[i] = i
			if i == 0 || h[i-1] == '\n' {
				o.nextLS[i] = i
			}
		}
		if i < n && h[i] >= '0' && h[i] <= '9' {
			o.nextD[i] = i
		}
	}
	return o
}

func (o *c16Oracle) find(contract, s int) int {
	if s < 0 || s >= len(o.next) {
		return -1
	}
	switch contract {
	case c16LineAnchor:
		return o.nextLS[s]
	case c16Digit:
		return o.nextD[s]
	}
	return o.next[s]
}

// leftmost-first span of the alternation of the literals from s
func (o *c16Oracle) span(lits [][]byte, s int) (int, int) {
	p := o.find(c16Min, s)
	if p < 0 {
		return -1, -1
	}
	return p, p + len(lits[o.first[p]])
}

// ---------------------------------------------------------------------------
// violations / cases
// ---------------------------------------------------------------------------

func c16HayString(h []byte) string {
	if len(h) <= 256 {
		return hex.EncodeToString(h)
	}
	sum := sha256.Sum256(h)
	return fmt.Sprintf("sha256:%s/len%d", hex.EncodeToString(sum[:8]), len(h))
}

func (c *c16Ctx) violate(kind string, p *c16PF, h []byte, s int, expected, got string) {
	key := kind + "|" + p.kind + "|" + c16LitsString(p.lits)
	c.violN[kind]++
	c.st.hist("violation:" + kind)
	old, ok := c.viol[key]
	if ok {
		if oh, _ := old.Detail["haystack_len"].(int); oh <= len(h) {
			return
		}
	}
	if !ok && len(c.viol) >= 400 {
		return
	}
	hs := c16HayString(h)
	v := &violation{
		Kind: kind,
		Case: c.caseIdx,
		Detail: map[string]any{
			"prefilter":    p.kind,
			"literals":     c16LitsReadable(p.lits),
			"literals_hex": c16LitsString(p.lits),
			"haystack_hex": hs,
			"haystack":     strconv.Quote(string(h[:c16min(len(h), 200)])),
			"haystack_len": len(h),
			"start":        s,
			"complete":     p.pf != nil && p.pf.IsComplete(),
		},
		Sig:      kind + "|" + p.kind + "|" + c16LitsString(p.lits) + "|" + hs + "|" + strconv.Itoa(s),
		Expected: expected,
		Got:      got,
	}
	c.viol[key] = v
}

func c16min(a, b int) int {
	if a < b {
		return a
	}
	return b
}

// reservoir sampling of Coq cases per prefilter; violating cases are kept first
func (c *c16Ctx) offer(p *c16PF, h []byte, s, api, obsS, obsE int, bad bool) {
	if len(h) > 80 {
		return
	}
	const capPer = 14
	cs := c16Case{pf: p, hay: append([]byte(nil), h...), start: s, api: api, obsStart: obsS, obsEnd: obsE, bad: bad}
	p.seen++
	if len(p.cases) < capPer {
		p.cases = append(p.cases, cs)
		return
	}
	if bad {
		// replace a non-violating case if any (at most 4 violating ones per prefilter)
		nb := 0
		for _, x := range p.cases {
			if x.bad {
				nb++
			}
		}
		if nb < 2 {
			for i := range p.cases {
				if !p.cases[i].bad {
					p.cases[i] = cs
					return
				}
			}
		}
		return
	}
	j := c.r.intn(p.seen)
	if j < capPer && !p.cases[j].bad {
		p.cases[j] = cs
	}
}

// ---------------------------------------------------------------------------
// running one prefilter on one haystack
// ---------------------------------------------------------------------------

func (c *c16Ctx) checkAt(p *c16PF, h []byte, o *c16Oracle, s int) {
	c.caseIdx++
	c.evals++
	want := o.find(p.contract, s)
	got := p.pf.Find(h, s)
	bad := got != want
	if bad {
		c.violate("find-vs-spec", p, h, s, strconv.Itoa(want), strconv.Itoa(got))
	}
	if want >= 0 {
		c.distinct.add(fmt.Sprintf("%d/%d/%d", p.idx, len(h), want-s))
	}
	api := c16ApiOther
	switch {
	case p.contract == c16LineAnchor:
		api = c16ApiLine
	case p.contract == c16Digit:
		api = c16ApiDigit
	case p.slim != nil || p.fat != nil:
		api = c16ApiFind
	}
	c.offer(p, h, s, api, got, -1, bad)
	if p.contract != c16Min {
		return
	}
	ws, we := o.span(p.lits, s)

	// IsComplete with a fixed literal length: start + LiteralLen is the span
	if p.pf.IsComplete() && p.pf.LiteralLen() > 0 && got >= 0 {
		if got != ws || got+p.pf.LiteralLen() != we {
			c.violate("complete-literallen-span", p, h, s, fmt.Sprintf("[%d,%d]", ws, we), fmt.Sprintf("[%d,%d]", got, got+p.pf.LiteralLen()))
		}
	}

	if mf, ok := p.pf.(prefilter.MatchFinder); ok {
		c.evals++
		gs, ge := mf.FindMatch(h, s)
		mbad := false
		if gs != ws {
			mbad = true
			c.violate("findmatch-start-vs-spec", p, h, s, strconv.Itoa(ws), strconv.Itoa(gs))
		} else if ge != we {
			mbad = true
			// a wrong end is a violation of the property only for complete prefilters
			if p.pf.IsComplete() {
				c.violate("findmatch-leftmost-first", p, h, s, fmt.Sprintf("[%d,%d]", ws, we), fmt.Sprintf("[%d,%d]", gs, ge))
			} else {
				c.st.hist("note:findmatch-not-leftmost-first-but-incomplete")
			}
		}
		if gs >= 0 && (ge > len(h) || ge < gs || o.first[gs] < 0 || !c16SomeLitIs(p.lits, h[gs:ge])) {
			c.violate("findmatch-span-not-a-literal", p, h, s, "a literal occurrence", fmt.Sprintf("[%d,%d]", gs, ge))
		}
		if p.slim != nil || p.fat != nil {
			c.offer(p, h, s, c16ApiFindMatch, gs, ge, mbad)
		}
		// stdlib regexp as a second oracle for the span (ASCII literals only)
		if p.re != nil && len(h) <= 400 && s <= len(h) {
			loc := p.re.FindIndex(h[s:])
			rs, re := -1, -1
			if loc != nil {
				rs, re = loc[0]+s, loc[1]+s
			}
			if rs != ws || re != we {
				c.st.hist("HARNESS-ORACLE-DISAGREES-WITH-STDLIB")
				c.st.Notes = append(c.st.Notes, fmt.Sprintf("oracle [%d,%d] vs stdlib [%d,%d] for %s on %x from %d", ws, we, rs, re, c16LitsReadable(p.lits), h, s))
			}
		}
	}

	// unexported paths through the hooks
	if s <= len(h) && (p.slim != nil || p.fat != nil) {
		var fs, ms, me, sp, vp int
		var sm, vm uint16
		if p.slim != nil {
			fs = p.slim.VerifFindScalar(h, s)
			ms, me = p.slim.VerifFindMatchScalar(h, s)
			a, b := p.slim.VerifScalarCandidate(h[s:])
			x, y := p.slim.VerifSIMDCandidate(h[s:])
			sp, sm, vp, vm = a, uint16(b), x, uint16(y)
		} else {
			fs = p.fat.VerifFindScalar(h, s)
			ms, me = p.fat.VerifFindMatchScalar(h, s)
			sp, sm = p.fat.VerifScalarCandidate(h[s:])
			vp, vm = p.fat.VerifSIMDCandidate(h[s:])
		}
		c.evals += 4
		if fs != ws {
			c.violate("findscalar-vs-spec", p, h, s, strconv.Itoa(ws), strconv.Itoa(fs))
		}
		c.offer(p, h, s, c16ApiScalar, fs, -1, fs != ws)
		if ms != ws || me != we {
			c.violate("findmatchscalar-vs-leftmost-first", p, h, s, fmt.Sprintf("[%d,%d]", ws, we), fmt.Sprintf("[%d,%d]", ms, me))
		}
		c.offer(p, h, s, c16ApiMatchScalar, ms, me, ms != ws || me != we)
		// contract of findSIMD (Teddy.v, cand_contract): never step over a window with a
		// non-zero mask, never drop a bucket bit of the reported window; spurious
		// candidates / bits are allowed (and only counted).
		switch {
		case sp >= 0 && (vp < 0 || vp > sp):
			c.violate("simd-candidate-skips-window", p, h, s, fmt.Sprintf("(%d,%#x)", sp, sm), fmt.Sprintf("(%d,%#x)", vp, vm))
		case sp >= 0 && vp == sp && sm&^vm != 0:
			c.violate("simd-candidate-drops-bucket-bit", p, h, s, fmt.Sprintf("(%d,%#x)", sp, sm), fmt.Sprintf("(%d,%#x)", vp, vm))
		case vp >= len(h)-s+1 || vp < -1:
			c.violate("simd-candidate-out-of-range", p, h, s, fmt.Sprintf("(%d,%#x)", sp, sm), fmt.Sprintf("(%d,%#x)", vp, vm))
		case sp != vp || sm != vm:
			c.st.hist("note:simd-candidate-spurious(" + p.kind + ")")
			if _, ok := c.st.Extra["spurious_candidate_example"]; !ok {
				c.st.Extra["spurious_candidate_example"] = map[string]any{"prefilter": p.kind, "literals": c16LitsReadable(p.lits),
					"haystack": strconv.Quote(string(h[s:])), "scalar": fmt.Sprintf("(%d,%#x)", sp, sm), "simd": fmt.Sprintf("(%d,%#x)", vp, vm)}
			}
		default:
			c.st.hist("simd-candidate-exact")
		}
	}
}

func c16SomeLitIs(lits [][]byte, b []byte) bool {
	for _, l := range lits {
		if bytes.Equal(l, b) {
			return true
		}
	}
	return false
}

// c16Place copies h into a fresh buffer at the given alignment offset so that the
// slice handed to the prefilter starts at different addresses modulo 64.
func c16Place(h []byte, align int, tightCap bool) []byte {
	buf := make([]byte, len(h)+align+64+64)
	// make the backing array start 64-aligned-ish: find offset
	base := 0
	for ; base < 64; base++ {
		if uintptr(unsafe.Pointer(&buf[base]))%64 == 0 {
			break
		}
	}
	for i := range buf {
		buf[i] = 0xEE
	}
	off := base + align
	copy(buf[off:], h)
	if tightCap {
		return buf[off : off+len(h) : off+len(h)]
	}
	return buf[off : off+len(h)]
}

func (c *c16Ctx) runHay(p *c16PF, h []byte, starts []int, align int) {
	hp := c16Place(h, align, c.r.bool())
	o := c16MakeOracle(p.lits, hp)
	for _, s := range starts {
		c.checkAt(p, hp, o, s)
	}
}

func c16Starts(r *rng, n int, hit int, all bool) []int {
	if all {
		out := make([]int, 0, n+2)
		for s := 0; s <= n+1; s++ {
			out = append(out, s)
		}
		return out
	}
	set := map[int]bool{0: true, n: true}
	if n > 0 {
		set[n-1] = true
	}
	if hit >= 0 {
		for _, d := range []int{-17, -16, -15, -1, 0, 1} {
			if hit+d >= 0 && hit+d <= n {
				set[hit+d] = true
			}
		}
	}
	for k := 0; k < 3; k++ {
		set[r.intn(n+1)] = true
	}
	out := make([]int, 0, len(set))
	for s := range set {
		out = append(out, s)
	}
	sort.Ints(out)
	return out
}

func (c *c16Ctx) background(p *c16PF, n int, mode int) []byte {
	h := make([]byte, n)
	if len(p.lits) == 0 {
		mode = 0
	}
	switch mode {
	case 0: // filler that is (almost surely) not part of any literal
		for i := range h {
			h[i] = '.'
		}
	case 1: // bytes of the literals: many accidental hits and near misses
		var pool []byte
		for _, l := range p.lits {
			pool = append(pool, l...)
		}
		if len(pool) == 0 {
			pool = []byte("ab")
		}
		for i := range h {
			h[i] = pool[c.r.intn(len(pool))]
		}
	case 2: // fingerprint prefixes of literals everywhere (false candidates), no full hit likely
		for i := 0; i < n; {
			l := p.lits[c.r.intn(len(p.lits))]
			k := 1 + c.r.intn(c16min(len(l), 3))
			for j := 0; j < k && i < n; j++ {
				h[i] = l[j]
				i++
			}
			if i < n && c.r.chance(50) {
				h[i] = '.'
				i++
			}
		}
	default: // nibble-colliding garbage: bytes sharing one nibble with literal bytes
		for i := range h {
			l := p.lits[c.r.intn(len(p.lits))]
			b := l[c.r.intn(len(l))]
			if c.r.bool() {
				h[i] = b ^ byte(0x10<<uint(c.r.intn(3)))
			} else {
				h[i] = b ^ byte(1<<uint(c.r.intn(3)))
			}
		}
	}
	if p.contract == c16LineAnchor {
		for i := range h {
			if c.r.chance(12) {
				h[i] = '\n'
			}
		}
	}
	if p.contract == c16Digit {
		for i := range h {
			switch c.r.intn(6) {
			case 0:
				h[i] = '/' // '0'-1
			case 1:
				h[i] = ':' // '9'+1
			case 2:
				h[i] = byte(0xB0 + c.r.intn(10)) // digit with the high bit set
			default:
				h[i] = byte('a' + c.r.intn(26))
			}
		}
	}
	return h
}

func (c *c16Ctx) plant(p *c16PF, h []byte, pos int) {
	if p.contract == c16Digit {
		if pos < len(h) {
			h[pos] = byte('0' + c.r.intn(10))
		}
		return
	}
	l := p.lits[c.r.intn(len(p.lits))]
	if pos+len(l) <= len(h) {
		copy(h[pos:], l)
		if p.contract == c16LineAnchor && pos > 0 && c.r.chance(60) {
			h[pos-1] = '\n'
		}
	} else if pos < len(h) {
		// literal cut off by the end of the haystack: must NOT be reported
		copy(h[pos:], l[:len(h)-pos])
	}
}

var c16Boundary = map[int]bool{15: true, 16: true, 17: true, 31: true, 32: true, 33: true, 47: true, 48: true, 63: true, 64: true, 65: true, 127: true, 128: true, 129: true}

func (c *c16Ctx) exercise(p *c16PF, maxLen int) {
	align := 0
	for n := 0; n <= maxLen; n++ {
		if time.Now().After(c.deadline) {
			c.st.hist("note:deadline-hit")
			return
		}
		dense := c16Boundary[n] || n <= 20 || (c.tier == "thorough" && n%7 == 0)
		// no planted hit, several backgrounds
		for mode := 0; mode < 4; mode++ {
			if mode >= 2 && !dense && !c.r.chance(30) {
				continue
			}
			h := c.background(p, n, mode)
			c.runHay(p, h, c16Starts(c.r, n, -1, n <= 24), align%64)
			align += 7
		}
		// planted hits
		var positions []int
		if dense {
			for q := 0; q <= n; q++ {
				positions = append(positions, q)
			}
		} else {
			positions = []int{0, n - 1, n - 2, n - 3, n - 4, n - 8, c.r.intn(n + 1), c.r.intn(n + 1)}
			for _, b := range []int{13, 14, 15, 16, 29, 30, 31, 32, 61, 62, 63, 64} {
				positions = append(positions, b)
			}
		}
		for _, q := range positions {
			if q < 0 || q > n {
				continue
			}
			h := c.background(p, n, c.r.intn(3)%3)
			if c.r.chance(50) {
				h = c.background(p, n, 0)
			}
			c.plant(p, h, q)
			if c.r.chance(25) { // a second, later hit
				c.plant(p, h, q+1+c.r.intn(8))
			}
			c.runHay(p, h, c16Starts(c.r, n, q, n <= 24 && c.r.chance(30)), align%64)
			align += 5
		}
	}
}

func (c *c16Ctx) exerciseLong(p *c16PF) {
	sizes := []int{4096, 4097, 8191, 16384 + 15, 65536, 70001}
	for _, n := range sizes {
		if time.Now().After(c.deadline) {
			return
		}
		for mode := 0; mode < 3; mode++ {
			h := c.background(p, n, mode)
			var starts []int
			q := -1
			if mode != 1 {
				q = n - 1 - c.r.intn(70)
				c.plant(p, h, q)
			}
			starts = c16Starts(c.r, n, q, false)
			for k := 0; k < 6; k++ {
				starts = append(starts, c.r.intn(n+1))
			}
			c.runHay(p, h, starts, c.r.intn(64))
		}
	}
}

// ---------------------------------------------------------------------------
// tracker
// ---------------------------------------------------------------------------

func (c *c16Ctx) exerciseTracker(p *c16PF) {
	for _, confirmPct := range []int{0, 5, 50, 100} {
		tr := prefilter.NewTracker(p.pf)
		if tr == nil {
			c.violate("tracker-nil", p, nil, 0, "non-nil", "nil")
			return
		}
		h := c.background(p, 60+c.r.intn(60), 1)
		for k := 0; k < 6; k++ {
			c.plant(p, h, c.r.intn(len(h)))
		}
		deactivatedAt := -1
		for call := 0; call < 420; call++ {
			if call == 300 && c.r.bool() {
				tr.Reset()
				deactivatedAt = -1
				if !tr.IsActive() {
					c.violate("tracker-reset-not-active", p, h, 0, "active", "inactive")
				}
			}
			s := c.r.intn(len(h) + 1)
			wasActive := tr.IsActive()
			got := tr.Find(h, s)
			c.evals++
			c.caseIdx++
			// the tracker's own contract: inner.Find while active, -1 afterwards
			want := -1
			if wasActive {
				want = p.pf.Find(h, s)
			}
			if got != want {
				c.violate("tracker-vs-contract", p, h, s, strconv.Itoa(want), strconv.Itoa(got))
			}
			if !wasActive && tr.IsActive() {
				c.violate("tracker-reactivated-without-reset", p, h, s, "inactive", "active")
			}
			if wasActive && !tr.IsActive() {
				deactivatedAt = call
				cand, conf, _, _ := tr.Stats()
				if cand < 128 {
					c.violate("tracker-deactivated-in-warmup", p, h, s, ">=128 candidates", fmt.Sprintf("%d candidates %d confirms", cand, conf))
				}
				if float64(conf)/float64(cand) >= 0.1 {
					c.violate("tracker-deactivated-while-effective", p, h, s, "efficiency<0.1", fmt.Sprintf("%d/%d", conf, cand))
				}
			}
			if got >= 0 && c.r.chance(confirmPct) {
				tr.ConfirmMatch()
			}
		}
		if deactivatedAt >= 0 {
			c.st.hist("tracker:deactivated")
		} else {
			c.st.hist("tracker:stayed-active")
		}
		if tr.IsComplete() != p.pf.IsComplete() || tr.LiteralLen() != p.pf.LiteralLen() {
			c.violate("tracker-flags", p, nil, 0, "inner flags", "different")
		}
	}
}

// ---------------------------------------------------------------------------
// building the prefilters
// ---------------------------------------------------------------------------

func (c *c16Ctx) newPF(kind string, pf prefilter.Prefilter, lits [][]byte, contract, cfgfp int) *c16PF {
	p := &c16PF{kind: kind, pf: pf, lits: lits, contract: contract, cfgfp: cfgfp, ascii: c16IsASCII(lits)}
	switch t := pf.(type) {
	case *prefilter.Teddy:
		p.slim = t
	case *prefilter.FatTeddy:
		p.fat = t
	}
	if p.ascii && len(lits) > 0 && contract == c16Min {
		parts := make([]string, len(lits))
		for i, l := range lits {
			parts[i] = regexp.QuoteMeta(string(l))
		}
		p.re = regexp.MustCompile(strings.Join(parts, "|"))
	}
	return p
}

func c16TypeName(pf prefilter.Prefilter) string {
	s := fmt.Sprintf("%T", pf)
	return strings.TrimPrefix(s, "*prefilter.")
}

func (c *c16Ctx) buildAll() []*c16PF {
	r := c.r
	var out []*c16PF
	add := func(p *c16PF) {
		p.idx = len(out)
		out = append(out, p)
		c.st.hist("built:" + p.kind)
	}
	scale := 1
	if c.tier == "thorough" {
		scale = 4
	}

	// regression corpus: the set of the known FindMatch finding
	{
		lits := [][]byte{[]byte("xxx0"), []byte("abcd"), []byte("xxx2"), []byte("xxx3"), []byte("xxx4"), []byte("xxx5"), []byte("xxx6"), []byte("xxx7"), []byte("abc")}
		comp := make([]bool, len(lits))
		for i := range comp {
			comp[i] = true
		}
		pf := prefilter.NewBuilder(c16Seq(lits, comp), nil).Build()
		add(c.newPF("builder/"+c16TypeName(pf), pf, lits, c16Min, 2))
	}

	// (1) Builder over 1..64 (and a few more) literals
	counts := []int{1, 1, 1, 2, 2, 3, 4, 5, 7, 8, 9, 10, 12, 15, 16, 17, 24, 31, 32, 33, 34, 40, 48, 63, 64, 65, 66, 80}
	for rep := 0; rep < scale; rep++ {
		for _, n := range counts {
			minL, maxL := 3, 8
			if n == 1 {
				minL = 1
				if r.chance(40) {
					maxL = 1 // memchr
				}
			}
			if r.chance(15) {
				maxL = 20
			}
			lits := c16GenLits(r, n, minL, maxL, true)
			comp := make([]bool, n)
			allc := r.chance(60)
			for i := range comp {
				comp[i] = allc || r.bool()
			}
			var pf prefilter.Prefilter
			if r.bool() {
				pf = prefilter.NewBuilder(c16Seq(lits, comp), nil).Build()
			} else {
				pf = prefilter.NewBuilder(nil, c16Seq(lits, comp)).Build() // suffix slot: same selection
			}
			if pf == nil {
				c.violate("builder-returned-nil", &c16PF{kind: "builder", lits: lits}, nil, 0, "a prefilter", "nil")
				continue
			}
			if pf.IsComplete() != (allc || c16All(comp)) {
				c.violate("iscomplete-flag", &c16PF{kind: "builder", lits: lits, pf: pf}, nil, 0, strconv.FormatBool(c16All(comp)), strconv.FormatBool(pf.IsComplete()))
			}
			p := c.newPF("builder/"+c16TypeName(pf), pf, lits, c16Min, 2)
			add(p)
			// wrappers around some of them
			if r.chance(35) {
				w := prefilter.WrapIncomplete(pf)
				if w.IsComplete() || w.LiteralLen() != 0 {
					c.violate("wrapincomplete-flags", p, nil, 0, "false,0", fmt.Sprintf("%v,%d", w.IsComplete(), w.LiteralLen()))
				}
				add(c.newPF("incomplete("+c16TypeName(pf)+")", w, lits, c16Min, 2))
			}
			if r.chance(45) {
				w := prefilter.WrapLineAnchor(pf)
				if w.IsComplete() != pf.IsComplete() || w.LiteralLen() != pf.LiteralLen() {
					c.violate("wraplineanchor-flags", p, nil, 0, "inner flags", "different")
				}
				add(c.newPF("lineanchor("+c16TypeName(pf)+")", w, lits, c16LineAnchor, 2))
			}
		}
		// short literals (min length < 3) with several literals: Build() declines
		for _, n := range []int{2, 5} {
			lits := c16GenLits(r, n, 1, 2, false)
			comp := make([]bool, n)
			if pf := prefilter.NewBuilder(c16Seq(lits, comp), nil).Build(); pf != nil {
				add(c.newPF("builder-short/"+c16TypeName(pf), pf, lits, c16Min, 2))
			} else {
				c.st.hist("built:none(short literals)")
			}
		}
	}

	// (2) NewTeddy / NewFatTeddy directly, default and custom configurations
	for rep := 0; rep < scale; rep++ {
		for _, n := range []int{2, 3, 8, 9, 10, 16, 17, 25, 32} {
			lits := c16GenLits(r, n, 3, 8, true)
			if t := prefilter.NewTeddy(lits, nil); t != nil {
				add(c.newPF("NewTeddy", t, lits, c16Min, 2))
			} else {
				c.violate("newteddy-nil", &c16PF{kind: "NewTeddy", lits: lits}, nil, 0, "non-nil", "nil")
			}
		}
		for _, fp := range []int{1, 2, 3, 4} {
			for _, n := range []int{2, 7, 9, 20, 32, 40} {
				minL := 1 + r.intn(3)
				lits := c16GenLits(r, n, minL, 8, true)
				cfg := &prefilter.TeddyConfig{MinPatterns: 2, MaxPatterns: 64, MinPatternLen: 1, FingerprintLen: fp}
				if t := prefilter.NewTeddy(lits, cfg); t != nil {
					add(c.newPF(fmt.Sprintf("NewTeddy(fp=%d)", fp), t, lits, c16Min, fp))
				}
			}
		}
		for _, n := range []int{2, 9, 16, 17, 33, 40, 64} {
			lits := c16GenLits(r, n, 3, 8, true)
			if t := prefilter.NewFatTeddy(lits, nil); t != nil {
				add(c.newPF("NewFatTeddy", t, lits, c16Min, 2))
			} else {
				c.violate("newfatteddy-nil", &c16PF{kind: "NewFatTeddy", lits: lits}, nil, 0, "non-nil", "nil")
			}
		}
		for _, fp := range []int{1, 3, 4} {
			n := []int{5, 18, 50}[r.intn(3)]
			lits := c16GenLits(r, n, 1+r.intn(3), 8, true)
			cfg := &prefilter.FatTeddyConfig{MinPatterns: 2, MaxPatterns: 64, MinPatternLen: 1, FingerprintLen: fp}
			if t := prefilter.NewFatTeddy(lits, cfg); t != nil {
				add(c.newPF(fmt.Sprintf("NewFatTeddy(fp=%d)", fp), t, lits, c16Min, fp))
			}
		}
	}

	// (3) digit prefilter (plain and wrapped)
	add(c.newPF("digit", prefilter.NewDigitPrefilter(), nil, c16Digit, 0))
	add(c.newPF("incomplete(digit)", prefilter.WrapIncomplete(prefilter.NewDigitPrefilter()), nil, c16Digit, 0))
	return out
}

func c16All(b []bool) bool {
	for _, x := range b {
		if !x {
			return false
		}
	}
	return true
}

// ---------------------------------------------------------------------------
// Coq output
// ---------------------------------------------------------------------------

func c16CoqNatLists(v [][]int) string {
	parts := make([]string, len(v))
	for i, b := range v {
		xs := make([]string, len(b))
		for j, x := range b {
			xs[j] = strconv.Itoa(x)
		}
		parts[i] = "[" + strings.Join(xs, ";") + "]"
	}
	return "([" + strings.Join(parts, ";") + "])%nat"
}

func c16CoqByteLists(v [][]byte) string {
	parts := make([]string, len(v))
	for i, b := range v {
		parts[i] = coqBytes(b)
	}
	return "[" + strings.Join(parts, ";") + "]"
}

func c16CoqDump(p *c16PF) string {
	if p.slim == nil && p.fat == nil {
		return fmt.Sprintf("{| td_T := {| pats := %s; tm := {| fplen := 0%%nat; lo := []; hi := [] |}; bkts := []; fat := false |}; td_cfgfp := 0%%nat |}",
			c16CoqByteLists(p.lits))
	}
	var fp int
	var lo, hi [][]byte
	var bk [][]int
	var pats [][]byte
	isFat := "false"
	if p.slim != nil {
		fp, lo, hi, bk, pats, _ = p.slim.VerifMasks()
	} else {
		fp, lo, hi, bk, pats, _ = p.fat.VerifMasks()
		isFat = "true"
	}
	return fmt.Sprintf("{| td_T := {| pats := %s; tm := {| fplen := %d%%nat; lo := %s; hi := %s |}; bkts := %s; fat := %s |}; td_cfgfp := %d%%nat |}",
		c16CoqByteLists(pats), fp, c16CoqByteLists(lo), c16CoqByteLists(hi), c16CoqNatLists(bk), isFat, p.cfgfp)
}

func (c *c16Ctx) writeCoq(path string, pfs []*c16PF, maxCases int) (int, []int, map[string]int) {
	expectKinds := map[string]int{}
	var sb strings.Builder
	sb.WriteString("(* generated by `harness c16`; do not edit *)\n")
	sb.WriteString("From CV Require Import Teddy.\nRequire Import List NArith ZArith.\nImport ListNotations.\nOpen Scope N_scope.\n\n")
	// round-robin over the prefilters so that every kind is represented
	var chosen []c16Case
	for round := 0; len(chosen) < maxCases; round++ {
		progress := false
		for _, p := range pfs {
			if round < len(p.cases) && len(chosen) < maxCases {
				chosen = append(chosen, p.cases[round])
				progress = true
			}
		}
		if !progress {
			break
		}
	}
	used := map[*c16PF]bool{}
	for _, cs := range chosen {
		used[cs.pf] = true
	}
	for _, p := range pfs {
		if used[p] {
			p.dumpName = fmt.Sprintf("td%d", p.idx)
			fmt.Fprintf(&sb, "(* %s: %s *)\nDefinition %s : tdump := %s.\n", p.kind, c16CommentSafe(c16LitsReadable(p.lits)), p.dumpName, c16CoqDump(p))
		}
	}
	sb.WriteString("\nDefinition cases : list case := [\n")
	var expectBad []int
	for i, cs := range chosen {
		if i > 0 {
			sb.WriteString(";\n")
		}
		fmt.Fprintf(&sb, " {| c_id := %d; c_td := %s; c_hay := %s; c_start := %d%%nat; c_api := %d; c_obs_start := (%d)%%Z; c_obs_end := (%d)%%Z |}",
			i, cs.pf.dumpName, coqBytes(cs.hay), cs.start, cs.api, cs.obsStart, cs.obsEnd)
		if cs.bad {
			expectBad = append(expectBad, i)
			expectKinds[cs.pf.kind]++
		}
	}
	sb.WriteString("\n].\n\n")
	sb.WriteString("(* M: observation differs from specification or model; MM: model/masks_ok/buildMasks\n   model differs from observation (must be []); MS: observation violates the specification *)\n")
	sb.WriteString("Definition M := Eval vm_compute in mismatches cases.\nPrint M.\n")
	sb.WriteString("Definition MM := Eval vm_compute in model_mismatches cases.\nPrint MM.\n")
	sb.WriteString("Definition MS := Eval vm_compute in spec_mismatches cases.\nPrint MS.\n")
	if err := os.WriteFile(path, []byte(sb.String()), 0o644); err != nil {
		fatal("c16: %v", err)
	}
	return len(chosen), expectBad, expectKinds
}

// ---------------------------------------------------------------------------
// main
// ---------------------------------------------------------------------------

func c16Main(args []string) int {
	fs := flag.NewFlagSet("c16", flag.ExitOnError)
	seed := fs.Uint64("seed", 1, "seed")
	tier := fs.String("tier", "quick", "quick|thorough")
	out := fs.String("out", "cases.v", "Coq case file")
	statsPath := fs.String("stats", "stats.json", "stats file")
	n := fs.Int("n", 0, "maximum number of Coq cases (default 800 quick, 1500 thorough)")
	budget := fs.Int("budget", 0, "time budget in seconds (default 45 quick, 900 thorough)")
	_ = fs.Parse(args)
	if *n == 0 {
		*n = 800
		if *tier == "thorough" {
			*n = 1500
		}
	}
	if *budget == 0 {
		*budget = 45
		if *tier == "thorough" {
			*budget = 900
		}
	}
	t0 := time.Now()
	st := newStats("C16", *seed)
	c := &c16Ctx{st: st, r: newRng(*seed), tier: *tier, distinct: distinctSet{}, viol: map[string]*violation{}, violN: map[string]int{},
		deadline: t0.Add(time.Duration(*budget) * time.Second)}
	st.Rule = "every prefilter kind x haystack lengths 0..130 (thorough 0..300 + 4k..70k) x planted hits at every/boundary positions x start offsets x alignments; Find vs min{i>=s: literal prefix of h[i:]}; complete prefilters vs leftmost-first span; hooks: scalar paths and SIMD-vs-scalar candidate finder"
	// which kernels run is decided by golang.org/x/sys/cpu inside /repo; GODEBUG=cpu.avx2=off,cpu.ssse3=off
	// selects the pure Go candidate finder (the "simd-candidate-*" histogram entries show the effect)
	st.Extra["godebug"] = os.Getenv("GODEBUG")

	pfs := c.buildAll()
	maxLen := 130
	if *tier == "thorough" {
		maxLen = 300
	}
	// spread the time budget: each prefilter gets the same share of lengths; the
	// loop over prefilters is interleaved by running lengths in two passes
	for _, p := range pfs {
		c.exercise(p, maxLen)
		st.sample(map[string]any{"prefilter": p.kind, "literals": c16LitsReadable(p.lits), "complete": p.pf.IsComplete(), "literal_len": p.pf.LiteralLen()})
	}
	for i, p := range pfs {
		if p.contract == c16Min && (i%5 == 0 || *tier == "thorough") {
			c.exerciseTracker(p)
		}
	}
	if *tier == "thorough" {
		for _, p := range pfs {
			c.exerciseLong(p)
		}
	} else {
		for i, p := range pfs {
			if i%9 == 0 {
				c.exerciseLong(p)
			}
		}
	}

	ncases, expectBad, expectKinds := c.writeCoq(*out, pfs, *n)
	st.CoqCases = ncases
	// ids of the emitted Coq cases on which the Go-side oracle already disagreed with the
	// implementation (so M = MS must be exactly this list and MM = []).  Since fix d598647
	// (FindMatch takes the lowest pattern id over all candidate buckets) only the
	// Aho-Corasick prefilter kinds may appear here.
	if expectBad == nil {
		expectBad = []int{}
	}
	st.Extra["coq_cases_expected_in_M"] = expectBad
	st.Extra["coq_cases_expected_in_M_kinds"] = expectKinds
	st.Evaluations = c.evals
	st.Distinct = len(c.distinct)
	keys := make([]string, 0, len(c.viol))
	for k := range c.viol {
		keys = append(keys, k)
	}
	sort.Strings(keys)
	for _, k := range keys {
		st.violate(*c.viol[k])
	}
	st.Extra["violation_counts"] = c.violN
	st.Extra["prefilters"] = len(pfs)
	st.Extra["seconds"] = time.Since(t0).Seconds()
	st.write(*statsPath)
	fmt.Printf("c16: %d prefilters, %d evaluations, %d distinct, %d coq cases, %d violation groups (%v) in %.1fs\n",
		len(pfs), c.evals, len(c.distinct), ncases, len(c.viol), c.violN, time.Since(t0).Seconds())
	return 0
}

// c16CommentSafe makes a string harmless inside a Coq comment: comment delimiters and the
// double quote (Coq lexes strings inside comments; an unbalanced quote swallows the rest).
func c16CommentSafe(t string) string {
	t = strings.ReplaceAll(t, "*)", "* )")
	t = strings.ReplaceAll(t, "(*", "( *")
	return strings.ReplaceAll(t, "\"", "''")
}
