package main

import (
	"bufio"
	"crypto/sha1"
	"encoding/hex"
	"encoding/json"
	"fmt"
	"os"
	"sort"
	"strconv"
	"strings"
)

// ---------------------------------------------------------------------------
// One PRNG for every random choice (SplitMix64), so that a case replays exactly
// from (seed, case index).
// ---------------------------------------------------------------------------

type rng struct{ s uint64 }

func newRng(seed uint64) *rng { return &rng{s: seed*0x9E3779B97F4A7C15 + 0x1234567} }

func (r *rng) next() uint64 {
	r.s += 0x9E3779B97F4A7C15
	z := r.s
	z = (z ^ (z >> 30)) * 0xBF58476D1CE4E5B9
	z = (z ^ (z >> 27)) * 0x94D049BB133111EB
	return z ^ (z >> 31)
}

// intn returns a value in [0,n).
func (r *rng) intn(n int) int {
	if n <= 0 {
		return 0
	}
	return int(r.next() % uint64(n))
}

func (r *rng) bool() bool              { return r.next()&1 == 1 }
func (r *rng) chance(p int) bool       { return r.intn(100) < p } // p in percent
func (r *rng) pick(xs []string) string { return xs[r.intn(len(xs))] }
func (r *rng) fork(tag uint64) *rng    { return newRng(r.next() ^ (tag * 0xD6E8FEB86659FD93)) }

// ---------------------------------------------------------------------------
// Emitting Gallina terms.
// ---------------------------------------------------------------------------

// coqBytes renders a byte slice as a Gallina `list N` literal (in scope N).
func coqBytes(b []byte) string {
	if len(b) == 0 {
		return "[]"
	}
	var sb strings.Builder
	sb.WriteByte('[')
	for i, c := range b {
		if i > 0 {
			sb.WriteByte(';')
		}
		sb.WriteString(strconv.Itoa(int(c)))
	}
	sb.WriteByte(']')
	return sb.String()
}

// coqZ renders an int as a Gallina Z literal, parenthesised when negative.
func coqZ(v int) string {
	if v < 0 {
		return "(" + strconv.Itoa(v) + ")"
	}
	return strconv.Itoa(v)
}

func coqZList(vs []int) string {
	parts := make([]string, len(vs))
	for i, v := range vs {
		parts[i] = coqZ(v)
	}
	return "[" + strings.Join(parts, ";") + "]"
}

func coqBool(b bool) string {
	if b {
		return "true"
	}
	return "false"
}

// coqString renders arbitrary bytes as a Gallina list of N (we never use Coq's
// string type for data: haystacks are byte lists).
func coqString(s string) string { return coqBytes([]byte(s)) }

// ---------------------------------------------------------------------------
// Stats / result files.
// ---------------------------------------------------------------------------

// violation is a concrete failing input of the *property* found on the Go side
// (implementation vs oracle), written into the stats file for the runner.
type violation struct {
	Kind     string         `json:"kind"`               // short classifier, e.g. "memchr-vs-spec"
	Case     int            `json:"case"`               // case index
	Detail   map[string]any `json:"detail"`             // inputs, expected, got
	Sig      string         `json:"sig,omitempty"`      // signature for known-finding matching
	RC       string         `json:"rc,omitempty"`       // root-cause label (defaults to kind[/cause])
	Expected string         `json:"expected,omitempty"` // rendered
	Got      string         `json:"got,omitempty"`
}

type stats struct {
	Property        string         `json:"property"`
	Seed            uint64         `json:"seed"`
	Evaluations     int            `json:"evaluations"`
	Distinct        int            `json:"distinct_nontrivial"`
	Rule            string         `json:"rule"`
	Samples         []any          `json:"samples"`
	Histogram       map[string]int `json:"histogram,omitempty"`
	CoqCases        int            `json:"coq_cases"`
	Violations      []violation    `json:"violations"`
	TotalViolations int            `json:"total_violations"`
	KnownHits       int            `json:"known_hits"`
	KnownByRC       map[string]int `json:"known_by_rc,omitempty"`
	perKey          map[string]int
	Notes           []string       `json:"notes,omitempty"`
	Extra           map[string]any `json:"extra,omitempty"`
}

func newStats(prop string, seed uint64) *stats {
	return &stats{Property: prop, Seed: seed, Histogram: map[string]int{}, Violations: []violation{}, Samples: []any{}, Extra: map[string]any{}}
}

func (s *stats) hist(k string) { s.Histogram[k]++ }

func (s *stats) sample(v any) {
	if len(s.Samples) < 8 {
		s.Samples = append(s.Samples, v)
	}
}

// violate records a violation of the property found on the Go side.
//
// Ledger mode (env VERIF_LEDGER=<file>): violations whose signature hash is listed in
// the ledger are failing inputs already recorded for an open known finding; they are
// only counted (per root-cause label).  Every other violation is kept with full detail
// (at most 2 per (kind, pattern) and 400 in total; the total is always counted).
// Record mode (env VERIF_RECORD=<file>): every violation is appended to the file as
// `<hash> <root-cause label> <signature>` — used by hand to (re)build a ledger, never by
// a check.
func (s *stats) violate(v violation) {
	s.TotalViolations++
	h := sigHash(v.Sig)
	rc := v.RC
	if rc == "" {
		rc = v.Kind
		if i := strings.LastIndex(v.Sig, " cause="); i >= 0 {
			rc += "/" + v.Sig[i+7:]
		}
	}
	rc = strings.ReplaceAll(rc, " ", "_")
	if recordFile != nil {
		sig := v.Sig
		if len(sig) > 300 {
			sig = sig[:300]
		}
		fmt.Fprintf(recordFile, "%s %s %s\n", h, rc, strconv.QuoteToASCII(sig))
	}
	if ledger != nil {
		if _, ok := ledger[h]; ok {
			if s.KnownByRC == nil {
				s.KnownByRC = map[string]int{}
			}
			s.KnownByRC[rc]++
			s.KnownHits++
			return
		}
	}
	if s.perKey == nil {
		s.perKey = map[string]int{}
	}
	k := v.Kind
	if p, ok := v.Detail["pattern"].(string); ok {
		k += "\x00" + p
	}
	s.perKey[k]++
	if s.perKey[k] <= 2 && len(s.Violations) < 400 {
		s.Violations = append(s.Violations, v)
	}
}

func sigHash(sig string) string {
	sum := sha1.Sum([]byte(sig))
	return hex.EncodeToString(sum[:])[:20]
}

var ledger map[string]string
var recordFile *os.File

func init() {
	if p := os.Getenv("VERIF_LEDGER"); p != "" {
		ledger = map[string]string{}
		if f, err := os.Open(p); err == nil {
			sc := bufio.NewScanner(f)
			sc.Buffer(make([]byte, 1<<20), 1<<20)
			for sc.Scan() {
				parts := strings.SplitN(sc.Text(), " ", 3)
				if len(parts) >= 2 && !strings.HasPrefix(parts[0], "#") {
					ledger[parts[0]] = parts[1]
				}
			}
			f.Close()
		}
	}
	if p := os.Getenv("VERIF_RECORD"); p != "" {
		// append: child processes of a harness run share the file (the runner removes it first)
		f, err := os.OpenFile(p, os.O_APPEND|os.O_CREATE|os.O_WRONLY, 0o644)
		if err == nil {
			recordFile = f
		}
	}
}

func (s *stats) write(path string) {
	b, err := json.MarshalIndent(s, "", " ")
	if err != nil {
		fatal("stats: %v", err)
	}
	if err := os.WriteFile(path, b, 0o644); err != nil {
		fatal("stats: %v", err)
	}
}

func fatal(format string, a ...any) {
	fmt.Fprintf(os.Stderr, "harness: "+format+"\n", a...)
	os.Exit(3)
}

func sortedKeys(m map[string]int) []string {
	ks := make([]string, 0, len(m))
	for k := range m {
		ks = append(ks, k)
	}
	sort.Strings(ks)
	return ks
}

// distinctSet counts distinct keys.
type distinctSet map[string]struct{}

func (d distinctSet) add(k string) { d[k] = struct{}{} }
