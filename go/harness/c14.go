package main

import (
	"flag"
	"fmt"
	"regexp/syntax"
	"sort"
	"strings"

	"github.com/coregx/coregex/dfa/lazy"
	"github.com/coregx/coregex/dfa/onepass"
	"github.com/coregx/coregex/literal"
	"github.com/coregx/coregex/nfa"
	"github.com/coregx/coregex/prefilter"
)

// ---------------------------------------------------------------------------
// `c14`: every engine the library exposes, driven directly on the NFA that /repo's
// compiler produced, against the extracted Coq reference (`nfa_ref` = Nfa.find_at &c.)
// evaluated on the SAME dumped NFA: existence, leftmost-first span, captures,
// leftmost-longest span, anchored end, reverse start.  Haystacks: exhaustive short
// strings over the pattern's byte-class representatives + AST-derived shapes, all start
// offsets; lazy DFA under several cache capacities / clear limits / determinisation
// limits, including caches too small to hold the automaton.
// ---------------------------------------------------------------------------

type c14Run struct {
	st    *stats
	model *modelProc
	pat   string
	idx   int
	tags  []string
}

func (r *c14Run) bad(engine, op string, h []byte, at int, want, got string, extra string) {
	d := map[string]any{"engine": engine, "op": op, "pattern": r.pat, "haystack": string(h), "haystack_hex": fmt.Sprintf("%x", h),
		"at": at, "expected_reference": want, "got": got, "tags": r.tags}
	if extra != "" {
		d["config"] = extra
	}
	r.st.violate(violation{Kind: engine + "." + op, Case: r.idx, Detail: d,
		Sig: fmt.Sprintf("%s.%s%s pat=%q hay=%x at=%d got=%s", engine, op, extra, r.pat, h, at, got), Expected: want, Got: got,
		RC: engine + "." + op})
}

func spanStr(s, e int, ok bool) string {
	if !ok {
		return "none"
	}
	return fmt.Sprintf("[%d %d]", s, e)
}

func capsStr(c []int) string {
	if c == nil {
		return "none"
	}
	return fmt.Sprint(c)
}

func mwcCaps(m *nfa.MatchWithCaptures) []int {
	if m == nil {
		return nil
	}
	var out []int
	for _, g := range m.Captures {
		if len(g) >= 2 {
			out = append(out, g[0], g[1])
		} else {
			out = append(out, -1, -1)
		}
	}
	return out
}

// byteReps: representatives of the NFA's byte classes plus a few fixed bytes.
func byteReps(n *nfa.NFA) []byte {
	set := map[byte]bool{}
	bc := n.ByteClasses()
	seen := map[byte]bool{}
	for b := 0; b < 256; b++ {
		c := bc.Get(byte(b))
		if !seen[c] {
			seen[c] = true
			set[byte(b)] = true
		}
	}
	for _, b := range []byte{'\n', 'a', ' ', 0xc3} {
		set[b] = true
	}
	var out []byte
	for b := range set {
		out = append(out, b)
	}
	sort.Slice(out, func(i, j int) bool { return out[i] < out[j] })
	if len(out) > 7 {
		// keep it small: exhaustive enumeration is |reps|^len
		out = out[:7]
	}
	return out
}

func cmdC14(args []string) int {
	fs := flag.NewFlagSet("c14", flag.ExitOnError)
	seed := fs.Uint64("seed", 1, "seed")
	tier := fs.String("tier", "quick", "tier")
	modelPath := fs.String("model", "/verif/.work/bin/driver", "extracted model driver")
	statsPath := fs.String("stats", "stats.json", "stats")
	_ = fs.String("out", "", "unused")
	corpus := fs.String("corpus", "/verif/corpus/patterns_harvested.txt", "corpus")
	npatF := fs.Int("patterns", 0, "override pattern count")
	fs.Parse(args)
	st := newStats("C14", *seed)
	model := startModel(*modelPath)
	defer model.close()
	r := newRng(*seed)
	pg := &patGen{r: r.fork(1), corpus: loadCorpus(*corpus)}
	npat, maxLen := 330, 3
	if *tier == "thorough" {
		npat, maxLen = 2500, 4
	}
	if *npatF > 0 {
		npat = *npatF
	}
	distinct := distinctSet{}
	run := &c14Run{st: st, model: model}
	for i := 0; i < npat; i++ {
		pat, src := pg.next(i)
		re, err := syntax.Parse(pat, syntax.Perl)
		if err != nil {
			continue
		}
		n, err := nfa.NewDefaultCompiler().CompileRegexp(re)
		if err != nil || n.States() > 120 {
			st.hist("skip:compile-or-size")
			continue
		}
		d := dumpNFA(n)
		if !d.ok || !model.load(d) {
			st.hist("skip:model-does-not-cover-nfa")
			st.Notes = appendNote(st.Notes, fmt.Sprintf("wf_nfa false or unsupported state kind for %q: %s", pat, d.why))
			continue
		}
		st.hist("src:" + src)
		run.pat, run.idx, run.tags = pat, i, patternTags(re)
		// haystacks
		var hays [][]byte
		reps := byteReps(n)
		var gen func(cur []byte, l int)
		gen = func(cur []byte, l int) {
			hays = append(hays, append([]byte(nil), cur...))
			if l == 0 {
				return
			}
			for _, b := range reps {
				gen(append(cur, b), l-1)
			}
		}
		el := maxLen
		for pow(len(reps), el) > 450 && el > 1 {
			el--
		}
		gen(nil, el)
		hg := newHayGen(r.fork(uint64(i)+5000), re)
		for j := 0; j < 14; j++ {
			h := hg.next(j)
			if len(h) <= 60 {
				hays = append(hays, h)
			}
		}
		// engines
		pv := nfa.NewPikeVM(n)
		pvL := nfa.NewPikeVM(n)
		pvL.SetLongest(true)
		bt := nfa.NewBoundedBacktracker(n)
		bst := nfa.NewBacktrackerState()
		type dfaCfg struct {
			name string
			cfg  lazy.Config
		}
		base := lazy.DefaultConfig().WithPrefilter(false)
		dcfgs := []dfaCfg{
			{"", base},
			{"/cap=1state", base.WithMaxStates(1)},
			{"/cap=200B,clears=0", base.WithCacheCapacity(200).WithMaxCacheClears(0)},
			{"/cap=1KiB,clears=1000", base.WithCacheCapacity(1024).WithMaxCacheClears(1000)},
			{"/cap=400B,clears=5,det=3", base.WithCacheCapacity(400).WithDeterminizationLimit(3)},
		}
		type dfaInst struct {
			name  string
			d     *lazy.DFA
			cache *lazy.DFACache
		}
		var dfas []dfaInst
		for _, dc := range dcfgs {
			dd, err := lazy.CompileWithConfig(n, dc.cfg)
			if err != nil {
				continue
			}
			dfas = append(dfas, dfaInst{dc.name, dd, dd.NewCache()})
		}
		// the same DFA with a prefix prefilter installed (CompileWithPrefilter): the search loops
		// then skip ahead to prefilter candidates and re-select the start state there
		if seq := literal.New(literal.DefaultConfig()).ExtractPrefixes(re); seq != nil && !seq.IsEmpty() && !seq.IsPartialCoverage() {
			if pf := prefilter.NewBuilder(seq, nil).Build(); pf != nil {
				if dd, err := lazy.CompileWithPrefilter(n, lazy.DefaultConfig(), pf); err == nil {
					dfas = append(dfas, dfaInst{"/prefilter", dd, dd.NewCache()})
					st.hist("dfa-with-prefilter")
				}
			}
		}
		var op *onepass.DFA
		var opCache *onepass.Cache
		if n.IsAlwaysAnchored() || true {
			if o, err := onepass.Build(n); err == nil && o != nil {
				op = o
				opCache = onepass.NewCache(n.CaptureCount())
				st.hist("onepass-built")
			}
		}
		// reverse DFA for SearchReverse
		var rdfa *lazy.DFA
		var rcache *lazy.DFACache
		if rn := nfa.ReverseAnchored(n); rn != nil {
			rcfg := base
			rcfg.BreakAtMatch = false
			if dd, err := lazy.CompileWithConfig(rn, rcfg); err == nil {
				rdfa, rcache = dd, dd.NewCache()
			}
		}
		hasLook := false
		for _, t := range run.tags {
			if t == "wordb" || t == "mline" || t == "textanchor" {
				hasLook = true
			}
		}
		_ = hasLook
		for _, h := range hays {
			key := pat + "\x00" + string(h)
			if _, dup := distinct[key]; dup {
				continue
			}
			distinct.add(key)
			ats := []int{0}
			if len(h) <= 6 {
				for a := 1; a <= len(h); a++ {
					ats = append(ats, a)
				}
			} else {
				ats = append(ats, 1, len(h)/2, len(h))
			}
			for _, at := range ats {
				st.Evaluations++
				ref, ok := model.find(h, at)
				if !ok {
					st.Notes = appendNote(st.Notes, "model fuel/error on "+pat)
					continue
				}
				refSpan, refEnd, refBool := "none", -1, ref != nil
				if ref != nil {
					refSpan = fmt.Sprintf("[%d %d]", ref[0], ref[1])
					refEnd = ref[1]
				}
				// ---- PikeVM
				s, e, found := pv.SearchAt(h, at)
				if g := spanStr(s, e, found); g != refSpan {
					run.bad("PikeVM", "SearchAt", h, at, refSpan, g, "")
				}
				s, e, found = pv.SearchWithSlotTableAt(h, at, nfa.SearchModeFind)
				if g := spanStr(s, e, found); g != refSpan {
					run.bad("PikeVM", "SearchWithSlotTableAt(Find)", h, at, refSpan, g, "")
				}
				if g := capsStr(mwcCaps(pv.SearchWithCapturesAt(h, at))); g != capsStr(ref) {
					run.bad("PikeVM", "SearchWithCapturesAt", h, at, capsStr(ref), g, "")
				}
				if g := capsStr(mwcCaps(pv.SearchWithSlotTableCapturesAt(h, at))); g != capsStr(ref) {
					run.bad("PikeVM", "SearchWithSlotTableCapturesAt", h, at, capsStr(ref), g, "")
				}
				if ref != nil {
					if g := capsStr(mwcCaps(pv.SearchWithCapturesInSpan(h, ref[0], ref[1]))); g != capsStr(ref) {
						run.bad("PikeVM", "SearchWithCapturesInSpan", h, ref[0], capsStr(ref), g, "")
					}
				}
				if at == 0 {
					s, e, found = pv.Search(h)
					if g := spanStr(s, e, found); g != refSpan {
						run.bad("PikeVM", "Search", h, 0, refSpan, g, "")
					}
					if g := pv.IsMatch(h); g != refBool {
						run.bad("PikeVM", "IsMatch", h, 0, fmt.Sprint(refBool), fmt.Sprint(g), "")
					}
					s, e, found = pv.SearchWithSlotTable(h, nfa.SearchModeIsMatch)
					if found != refBool {
						run.bad("PikeVM", "SearchWithSlotTable(IsMatch)", h, 0, fmt.Sprint(refBool), fmt.Sprint(found), "")
					}
					if g := capsStr(mwcCaps(pv.SearchWithCaptures(h))); g != capsStr(ref) {
						run.bad("PikeVM", "SearchWithCaptures", h, 0, capsStr(ref), g, "")
					}
					// SearchBetween(h, 0, len) is a plain search
					s, e, found = pv.SearchBetween(h, 0, len(h))
					if g := spanStr(s, e, found); len(h) > 0 && g != refSpan {
						run.bad("PikeVM", "SearchBetween(0,len)", h, 0, refSpan, g, "")
					}
				}
				// longest
				lans := model.ask(fmt.Sprintf("longest %d %x", at, h))
				lref := "none"
				if strings.HasPrefix(lans, "m ") {
					var ls, le int
					fmt.Sscanf(lans, "m %d %d", &ls, &le)
					lref = fmt.Sprintf("[%d %d]", ls, le)
				}
				s, e, found = pvL.SearchAt(h, at)
				if g := spanStr(s, e, found); g != lref {
					run.bad("PikeVM", "SearchAt(longest)", h, at, lref, g, "")
				}
				// ---- bounded backtracker
				if bt.CanHandle(len(h)) {
					bst.Longest = false
					s, e, found = bt.SearchAtWithState(h, at, bst)
					if g := spanStr(s, e, found); g != refSpan {
						run.bad("BoundedBacktracker", "SearchAtWithState", h, at, refSpan, g, "")
					}
					bst.Longest = true
					s, e, found = bt.SearchAtWithState(h, at, bst)
					if g := spanStr(s, e, found); g != lref {
						run.bad("BoundedBacktracker", "SearchAtWithState(longest)", h, at, lref, g, "")
					}
					bst.Longest = false
					if at == 0 {
						if g := bt.IsMatchWithState(h, bst); g != refBool {
							run.bad("BoundedBacktracker", "IsMatchWithState", h, 0, fmt.Sprint(refBool), fmt.Sprint(g), "")
						}
						a0, ok0 := model.anch(h, 0)
						if ok0 {
							if g := bt.IsMatchAnchoredWithState(h, bst); g != (a0 != nil) {
								run.bad("BoundedBacktracker", "IsMatchAnchoredWithState", h, 0, fmt.Sprint(a0 != nil), fmt.Sprint(g), "")
							}
						}
					}
				}
				// ---- lazy DFA, forward
				anchRef, okA := model.anch(h, at)
				anchEnd := -1
				if okA && anchRef != nil {
					anchEnd = anchRef[1]
				}
				// earliest-match mode computes the EARLIEST end of any match starting at or
				// after `at` (SearchFirstAt returns as soon as a match state is reached),
				// not the leftmost-first end: min over starts of the reference's match ends
				earliestEnd := -1
				if refEnd >= 0 {
					for s0 := at; s0 <= len(h); s0++ {
						ans := model.ask(fmt.Sprintf("ends %d %x", s0, h))
						if strings.HasPrefix(ans, "e") {
							for _, f := range strings.Fields(ans)[1:] {
								var v int
								if _, err := fmt.Sscanf(f, "%d", &v); err == nil && (earliestEnd < 0 || v < earliestEnd) {
									earliestEnd = v
								}
							}
						}
					}
				}
				for _, di := range dfas {
					if g := di.d.FindAt(di.cache, h, at); g != refEnd {
						run.bad("lazy.DFA", "FindAt", h, at, fmt.Sprint(refEnd), fmt.Sprint(g), di.name)
					}
					if g := di.d.SearchAt(di.cache, h, at); g != refEnd {
						run.bad("lazy.DFA", "SearchAt", h, at, fmt.Sprint(refEnd), fmt.Sprint(g), di.name)
					}
					if g := di.d.SearchFirstAt(di.cache, h, at); g != earliestEnd {
						run.bad("lazy.DFA", "SearchFirstAt", h, at, fmt.Sprint(earliestEnd), fmt.Sprint(g), di.name)
					}
					if g := di.d.IsMatchAt(di.cache, h, at); g != refBool {
						run.bad("lazy.DFA", "IsMatchAt", h, at, fmt.Sprint(refBool), fmt.Sprint(g), di.name)
					}
					if okA {
						if g := di.d.SearchAtAnchored(di.cache, h, at); g != anchEnd {
							run.bad("lazy.DFA", "SearchAtAnchored", h, at, fmt.Sprint(anchEnd), fmt.Sprint(g), di.name)
						}
					}
					if at == 0 {
						if g := di.d.Find(di.cache, h); g != refEnd {
							run.bad("lazy.DFA", "Find", h, 0, fmt.Sprint(refEnd), fmt.Sprint(g), di.name)
						}
						if g := di.d.IsMatch(di.cache, h); g != refBool {
							run.bad("lazy.DFA", "IsMatch", h, 0, fmt.Sprint(refBool), fmt.Sprint(g), di.name)
						}
					}
				}
				// ---- reverse DFA: leftmost start of a match ending at `end`
				if rdfa != nil && ref != nil && at == 0 {
					end := ref[1]
					want := -1
					for s0 := 0; s0 <= end; s0++ {
						ans := model.ask(fmt.Sprintf("ends %d %x", s0, h))
						if strings.HasPrefix(ans, "e") {
							for _, f := range strings.Fields(ans)[1:] {
								var v int
								fmt.Sscanf(f, "%d", &v)
								if v == end && want < 0 {
									want = s0
								}
							}
						}
						if want >= 0 {
							break
						}
					}
					if g := rdfa.SearchReverse(rcache, h, 0, end); g != want {
						run.bad("lazy.DFA(reverse)", "SearchReverse", h, end, fmt.Sprint(want), fmt.Sprint(g), "")
					}
					if g := rdfa.IsMatchReverse(rcache, h, 0, end); g != (want >= 0) {
						run.bad("lazy.DFA(reverse)", "IsMatchReverse", h, end, fmt.Sprint(want >= 0), fmt.Sprint(g), "")
					}
				}
				// ---- one-pass DFA (anchored at 0)
				if op != nil && at == 0 {
					a0, ok0 := model.anch(h, 0)
					if ok0 {
						got := op.Search(h, opCache)
						var g []int
						if got != nil {
							g = append(g, got...)
						}
						if capsStr(g) != capsStr(a0) {
							run.bad("onepass.DFA", "Search", h, 0, capsStr(a0), capsStr(g), "")
						}
						if gb := op.IsMatch(h); gb != (a0 != nil) {
							run.bad("onepass.DFA", "IsMatch", h, 0, fmt.Sprint(a0 != nil), fmt.Sprint(gb), "")
						}
					}
				}
			}
		}
		if i%50 == 0 {
			st.sample(map[string]any{"pattern": pat, "nfa_states": n.States(), "haystacks": len(hays), "byte_class_reps": fmt.Sprintf("%q", reps), "dfa_configs": len(dfas), "onepass": op != nil})
		}
	}
	st.Distinct = len(distinct)
	st.Rule = "per pattern (NFA <= 120 states): exhaustive haystacks up to length 3-4 over the NFA's byte-class representatives + 14 AST-derived shapes, all start offsets for short haystacks; every engine entry point compared with the extracted Coq reference on the SAME dumped NFA; lazy DFA under 5 capacity/clear/determinisation configurations; distinct = distinct (pattern, haystack)"
	st.write(*statsPath)
	return 0
}

func pow(b, e int) int {
	r := 1
	for i := 0; i < e; i++ {
		r *= b
		if r > 1<<20 {
			return r
		}
	}
	return r
}

func init() { register("c14", cmdC14) }
