package main

import (
	"encoding/hex"
	"flag"
	"fmt"
	"hash/fnv"
	"os"
	"regexp"
	"regexp/syntax"
	"strings"

	"github.com/coregx/coregex/nfa"
)

// ---------------------------------------------------------------------------
// c13bt — property C13 for the bounded backtracker's reusable BacktrackerState
// (nfa/backtrack.go): the result of a call must not depend on what the state was
// used for before.  For every pattern one nfa.BoundedBacktracker and ONE
// nfa.BacktrackerState are driven through a history of calls (all three *WithState
// entry points, offsets, Longest toggled, haystack lengths long-short-long so that the
// visited table is re-sliced within its capacity, and histories that cross the wrap of
// the 16-bit generation counter); each result is compared with the result of the same
// call on a FRESH state.  Verdict: results only.  Separately every result is compared
// with stdlib regexp where the API's meaning allows (kind bt-vs-stdlib: that is C14/C02's
// business and hits the known compile-level defects).  The Coq case file replays small
// histories on the model of Backtrack.v.
// ---------------------------------------------------------------------------

type c13btCall struct {
	api     int // 0 IsMatchWithState, 1 IsMatchAnchoredWithState, 2 SearchAtWithState, 3 set Generation (harness action)
	at      int
	hay     []byte
	longest bool
}

type c13btRes struct {
	found    bool
	s, e     int
	panicked string
}

func (r c13btRes) String() string {
	if r.panicked != "" {
		return "panic: " + r.panicked
	}
	if !r.found {
		return "none"
	}
	return fmt.Sprintf("[%d %d]", r.s, r.e)
}

func (c c13btCall) String() string {
	name := [...]string{"IsMatch", "IsMatchAnchored", "SearchAt", "SetGeneration"}[c.api]
	if c.api == 3 {
		return fmt.Sprintf("%s(%d)", name, c.at)
	}
	l := ""
	if c.longest {
		l = ",longest"
	}
	if c.api == 2 {
		return fmt.Sprintf("%s(%s,%d%s)", name, hex.EncodeToString(c.hay), c.at, l)
	}
	return fmt.Sprintf("%s(%s%s)", name, hex.EncodeToString(c.hay), l)
}

// c13btExec runs one call on st; a panic (e.g. index out of range in shouldVisit) is
// reported as a result, not propagated.
func c13btExec(bt *nfa.BoundedBacktracker, st *nfa.BacktrackerState, c c13btCall) (res c13btRes) {
	defer func() {
		if p := recover(); p != nil {
			res = c13btRes{panicked: fmt.Sprint(p)}
		}
	}()
	st.Longest = c.longest
	switch c.api {
	case 0:
		return c13btRes{found: bt.IsMatchWithState(c.hay, st)}
	case 1:
		return c13btRes{found: bt.IsMatchAnchoredWithState(c.hay, st)}
	case 2:
		s, e, ok := bt.SearchAtWithState(c.hay, c.at, st)
		if !ok {
			return c13btRes{}
		}
		return c13btRes{found: true, s: s, e: e}
	default:
		// BacktrackerState.Generation is an exported field: the harness stores into it to get
		// next to the wrap cheaply.  Only ever raised, which keeps "no cell is stamped in the
		// future" (bt_inv of Backtrack.v) intact.
		st.Generation = uint16(c.at)
		return c13btRes{}
	}
}

type c13btObs struct {
	res      c13btRes
	gen      int
	vlen     int
	vcap     int
	wrapped  bool
	resliced bool
	alloc    bool
}

type c13btPat struct {
	idx   int
	pat   string
	src   string
	re    *syntax.Regexp
	n     *nfa.NFA
	bt    *nfa.BoundedBacktracker
	std   *regexp.Regexp // leftmost-first
	stdL  *regexp.Regexp // leftmost-longest
	stdA  *regexp.Regexp // anchored at 0
	dump  dumpedNFA
	hg    *hayGen
	r     *rng
	hcnt  int
	longH [][]byte
}

type c13btRun struct {
	st       *stats
	distinct distinctSet
	wraps    int
	reslices int
	allocs   int
	calls    int
}

func c13btHash(parts []string) string {
	h := fnv.New32a()
	for _, p := range parts {
		h.Write([]byte(p))
		h.Write([]byte{0})
	}
	return fmt.Sprintf("%08x", h.Sum32())
}

// c13btHay picks a haystack: long / short according to the phase of the history.
func (p *c13btPat) hay(long bool, maxLen int) []byte {
	p.hcnt++
	var h []byte
	if long {
		switch p.r.intn(4) {
		case 0:
			h = p.hg.next(6)
		case 1:
			h = p.hg.next(10)
		case 2:
			h = concatBytes(p.hg.noise(12), sampleMatch(p.r, p.re, 0), p.hg.noise(12))
		default:
			h = concatBytes([]byte("x"), sampleMatch(p.r, p.re, 0), sampleMatch(p.r, p.re, 0), p.hg.noise(6))
		}
		if len(h) < 8 {
			h = concatBytes(h, p.hg.noise(16), sampleMatch(p.r, p.re, 0))
		}
	} else {
		switch p.r.intn(4) {
		case 0:
			h = []byte{}
		case 1:
			h = []byte("x")
		case 2:
			h = p.hg.noise(4)
		default:
			h = sampleMatch(p.r, p.re, 0)
			if len(h) > 6 {
				h = h[:6]
			}
		}
	}
	if len(h) > maxLen {
		h = h[:maxLen]
	}
	return h
}

func (p *c13btPat) randCall(long bool, maxLen int) c13btCall {
	c := c13btCall{hay: p.hay(long, maxLen), longest: p.r.chance(25)}
	switch k := p.r.intn(10); {
	case k < 3:
		c.api = 0
	case k < 5:
		c.api = 1
	default:
		c.api = 2
		if p.r.bool() {
			c.at = p.r.intn(len(c.hay) + 1)
		}
	}
	return c
}

// c13btHistory builds a history of n calls: long, then short, then long haystacks.
func (p *c13btPat) history(n, maxLen int) []c13btCall {
	var hs []c13btCall
	for j := 0; j < n; j++ {
		phase := j * 3 / n
		long := phase != 1
		if p.r.chance(10) {
			long = !long
		}
		c := p.randCall(long, maxLen)
		if long && phase == 0 {
			p.longH = append(p.longH, c.hay)
		}
		if phase == 2 && len(p.longH) > 0 && p.r.chance(50) {
			// come back to an earlier long haystack, possibly shifted by one byte, so that the
			// same (state, position) cells are revisited at other generations
			h := p.longH[p.r.intn(len(p.longH))]
			switch p.r.intn(3) {
			case 0:
				c.hay = h
			case 1:
				if len(h) > 0 {
					c.hay = h[1:]
				}
			default:
				c.hay = concatBytes([]byte("x"), h)
				if len(c.hay) > maxLen {
					c.hay = c.hay[:maxLen]
				}
			}
			if c.api == 2 {
				c.at = 0
				if p.r.chance(30) {
					c.at = p.r.intn(len(c.hay) + 1)
				}
			}
		}
		hs = append(hs, c)
	}
	return hs
}

// c13btWrapHistory: stamp a large table at the small generations of a young state, get
// next to the wrap, wrap inside a SHORT-table call, then come back to the large table with
// shifted variants of the first haystack (the stale stamps of the first call sit at
// generation values the counter reaches again right after the wrap).
func (p *c13btPat) wrapHistory(maxLen int, direct bool, maxCalls int) []c13btCall {
	H := concatBytes([]byte("x"), sampleMatch(p.r, p.re, 0))
	if len(H) < 4 {
		H = concatBytes(H, p.hg.noise(6), sampleMatch(p.r, p.re, 0))
	}
	if len(H) > maxLen {
		H = H[:maxLen]
	}
	lg := p.r.chance(20)
	hs := []c13btCall{{api: 2, hay: H, longest: lg}}
	if p.r.bool() {
		H2 := concatBytes(p.hg.noise(3), sampleMatch(p.r, p.re, 0))
		if len(H2) > maxLen {
			H2 = H2[:maxLen]
		}
		hs = append(hs, c13btCall{api: 2, hay: H2, longest: lg})
	}
	if direct {
		hs = append(hs, c13btCall{api: 3, at: 65535 - p.r.intn(3)})
	}
	// short calls across the wrap (when !direct the caller ages the state with real calls
	// before replaying the rest)
	for k := 0; k < 3; k++ {
		hs = append(hs, c13btCall{api: 0, hay: []byte("x")})
	}
	after := []c13btCall{
		{api: 2, hay: H[1:], longest: lg},
		{api: 2, hay: H, at: 1, longest: lg},
		{api: 2, hay: H, longest: lg},
		{api: 0, hay: H},
		{api: 2, hay: concatBytes([]byte("x"), H), longest: lg},
		{api: 1, hay: H[1:]},
	}
	if len(H) > 2 {
		after = append(after, c13btCall{api: 2, hay: H[2:], longest: lg}, c13btCall{api: 2, hay: H, at: 2, longest: lg})
	}
	for _, c := range after {
		if len(c.hay) > maxLen {
			c.hay = c.hay[:maxLen]
		}
		if len(hs) < maxCalls {
			hs = append(hs, c)
		}
	}
	return hs
}

// run executes a history on ONE aged state, comparing each call with a fresh state and
// with stdlib; returns the observations.  ageBefore >= 0: before call number ageBefore the
// state is aged with real one-byte IsMatchWithState calls until Generation reaches 65533.
// repeat: one call in four is executed twice in a row ("repeating a call returns the same
// result"); histories that become Coq cases are run without it so that there is exactly
// one observation per call.
func (rr *c13btRun) run(p *c13btPat, hs []c13btCall, kind string, ageBefore int, repeat bool) []c13btObs {
	obs, _ := rr.runShadow(p, hs, kind, ageBefore, repeat, false)
	return obs
}

// c13btShadowExec executes c on a shadow state while EMULATING the wrap code before the
// repair (only Visited[:len] cleared on overflow): Visited is exported, so the cells beyond
// len(Visited) that the repaired code zeroes during a wrap are put back afterwards.  (After
// the wrap a call writes only below len(Visited), so restoring the tail is exact.)
func c13btShadowExec(bt *nfa.BoundedBacktracker, sh *nfa.BacktrackerState, c c13btCall) c13btRes {
	full := sh.Visited[:cap(sh.Visited)]
	saved := append([]uint16(nil), full...)
	genBefore, capBefore := sh.Generation, cap(sh.Visited)
	res := c13btExec(bt, sh, c)
	if c.api != 3 && cap(sh.Visited) == capBefore && sh.Generation < genBefore {
		full = sh.Visited[:cap(sh.Visited)]
		copy(full[len(sh.Visited):], saved[len(sh.Visited):])
	}
	return res
}

// runShadow is run, optionally with a shadow state emulating the original wrap code; the
// second result tells whether the emulated original code would have answered some call of
// this history differently (i.e. the history is able to expose that defect).
func (rr *c13btRun) runShadow(p *c13btPat, hs []c13btCall, kind string, ageBefore int, repeat bool, shadow bool) ([]c13btObs, bool) {
	st := nfa.NewBacktrackerState()
	var sh *nfa.BacktrackerState
	if shadow {
		sh = nfa.NewBacktrackerState()
	}
	disc := false
	var obs []c13btObs
	var rendered []string
	for j, c := range hs {
		if j == ageBefore {
			n := 0
			for st.Generation < 65533 && n < 70000 {
				p.bt.IsMatchWithState([]byte("x"), st)
				n++
			}
			rendered = append(rendered, fmt.Sprintf("age(%d)", n))
			rr.st.hist("aged-by-real-calls")
		}
		genBefore, lenBefore, capBefore := int(st.Generation), len(st.Visited), cap(st.Visited)
		got := c13btExec(p.bt, st, c)
		var shr c13btRes
		if sh != nil {
			shr = c13btShadowExec(p.bt, sh, c)
		}
		o := c13btObs{res: got, gen: int(st.Generation), vlen: len(st.Visited), vcap: cap(st.Visited)}
		if c.api != 3 {
			o.wrapped = o.gen < genBefore && o.vcap == capBefore
			o.alloc = o.vcap != capBefore
			o.resliced = !o.alloc && o.vlen != lenBefore
		}
		obs = append(obs, o)
		rendered = append(rendered, c.String())
		if c.api == 3 {
			continue
		}
		rr.calls++
		rr.st.Evaluations++
		rr.distinct.add(p.pat + "\x00" + c.String())
		rr.st.hist("api:" + [...]string{"IsMatchWithState", "IsMatchAnchoredWithState", "SearchAtWithState"}[c.api])
		if c.longest {
			rr.st.hist("longest")
		}
		if o.wrapped {
			rr.wraps++
		}
		if o.resliced {
			rr.reslices++
		}
		if o.alloc {
			rr.allocs++
		}
		hsum := c13btHash(rendered[:len(rendered)-1])
		detail := func(want, gotS string) map[string]any {
			return map[string]any{"pattern": p.pat, "pattern_source": p.src, "history_kind": kind, "call_index": j, "call": c.String(),
				"haystack": string(c.hay), "history": strings.Join(rendered, " ; "), "expected": want, "got": gotS,
				"generation_before": genBefore, "generation_after": o.gen, "len_visited": o.vlen, "cap_visited": o.vcap, "nfa_states": p.n.States()}
		}
		if got.panicked != "" {
			rr.st.violate(violation{Kind: "bt-panic", Case: p.idx, Detail: detail("no panic", got.String()),
				Sig: fmt.Sprintf("bt-panic pat=%q hist=%s call=%d:%s", p.pat, hsum, j, c.String()), Expected: "no panic", Got: got.String()})
		}
		// the same call on a fresh state
		fresh := c13btExec(p.bt, nfa.NewBacktrackerState(), c)
		if sh != nil && shr != fresh {
			disc = true // the original wrap code, emulated, answers this call differently from a fresh state
		}
		if fresh != got {
			rr.st.violate(violation{Kind: "bt-aged-vs-fresh", Case: p.idx, Detail: detail(fresh.String(), got.String()),
				Sig: fmt.Sprintf("bt-aged-vs-fresh pat=%q hist=%s call=%d:%s", p.pat, hsum, j, c.String()), Expected: fresh.String(), Got: got.String()})
		}
		if repeat && j%4 == 3 {
			again := c13btExec(p.bt, st, c)
			obs[len(obs)-1].gen, obs[len(obs)-1].vlen, obs[len(obs)-1].vcap = int(st.Generation), len(st.Visited), cap(st.Visited)
			obs[len(obs)-1].res = again
			rendered = append(rendered, c.String())
			if again != got {
				rr.st.violate(violation{Kind: "bt-repeat", Case: p.idx, Detail: detail(got.String(), again.String()),
					Sig: fmt.Sprintf("bt-repeat pat=%q hist=%s call=%d:%s", p.pat, hsum, j, c.String()), Expected: got.String(), Got: again.String()})
			}
		}
		// stdlib, where the API's meaning allows
		if got.panicked == "" {
			var want c13btRes
			cmp := true
			switch {
			case c.api == 0:
				want = c13btRes{found: p.std.Match(c.hay)}
			case c.api == 1 && p.stdA != nil:
				want = c13btRes{found: p.stdA.Match(c.hay)}
			case c.api == 2 && c.at == 0:
				re := p.std
				if c.longest {
					re = p.stdL
				}
				if loc := re.FindIndex(c.hay); loc != nil {
					want = c13btRes{found: true, s: loc[0], e: loc[1]}
				}
			default:
				cmp = false
			}
			if cmp && want != got {
				rr.st.violate(violation{Kind: "bt-vs-stdlib", Case: p.idx, Detail: detail(want.String(), got.String()),
					Sig: fmt.Sprintf("bt-vs-stdlib pat=%q call=%s", p.pat, c.String()), Expected: want.String(), Got: got.String()})
			}
		}
	}
	return obs, disc
}

// c13btCoqHistory renders a history with its observations as a Gallina `list hcall`.
func c13btCoqHistory(hs []c13btCall, obs []c13btObs) string {
	var sb strings.Builder
	sb.WriteString("[")
	first := true
	emit := func(c c13btCall, o c13btObs, gen, vlen, vcap int) {
		if !first {
			sb.WriteString(";\n     ")
		}
		first = false
		s, e := 0, 0
		if o.res.found && c.api == 2 {
			s, e = o.res.s, o.res.e
		}
		if o.res.panicked != "" {
			s, e = 99999, 99999 // a panic is no result: force a mismatch in the replay
		}
		fmt.Fprintf(&sb, "mkHC %d %d %s %s %s %d %d %d %d %d", c.api, c.at, coqBytes(c.hay), coqBool(c.longest), coqBool(o.res.found), s, e, gen, vlen, vcap)
	}
	for j, c := range hs {
		emit(c, obs[j], obs[j].gen, obs[j].vlen, obs[j].vcap)
	}
	sb.WriteString("]")
	return sb.String()
}

func cmdC13bt(args []string) int {
	fs := flag.NewFlagSet("c13bt", flag.ExitOnError)
	seed := fs.Uint64("seed", 1, "seed")
	tier := fs.String("tier", "quick", "quick|thorough")
	npat := fs.Int("n", 0, "number of patterns (0: by tier)")
	out := fs.String("out", "cases.v", "Coq case file")
	statsPath := fs.String("stats", "stats.json", "stats output")
	corpus := fs.String("corpus", "/verif/corpus/patterns_harvested.txt", "pattern corpus")
	fs.Parse(args)

	st := newStats("C13", *seed)
	rr := &c13btRun{st: st, distinct: distinctSet{}}
	np, maxCoq, agedEvery := 320, 150, 40
	if *tier == "thorough" {
		np, maxCoq, agedEvery = 3000, 600, 8
	}
	if *npat > 0 {
		np = *npat
	}
	r := newRng(*seed)
	pg := &patGen{r: r.fork(1), corpus: loadCorpus(*corpus)}

	var coq strings.Builder
	coq.WriteString("From CV Require Import Nfa Backtrack.\nFrom Coq Require Import List NArith.\nImport ListNotations.\nOpen Scope N_scope.\n")
	coq.WriteString("(* generated by `harness c13bt`: histories observed on ONE nfa.BacktrackerState *)\n")
	coq.WriteString("Definition cases : list case := [\n")
	ncoq, nwrapCoq := 0, 0
	emitCase := func(p *c13btPat, hs []c13btCall, obs []c13btObs) {
		if ncoq > 0 {
			coq.WriteString(";\n")
		}
		fmt.Fprintf(&coq, "  (* %d: %s *)\n  mkCase %d %s\n    %s", p.idx, c13btSafe(p.pat), ncoq, p.dump.coq, c13btCoqHistory(hs, obs))
		ncoq++
	}
	coqOK := func(p *c13btPat, hs []c13btCall, obs []c13btObs) bool {
		if !p.dump.ok || p.n.States() > 40 || strings.Contains(p.dump.coq, "999999") {
			return false
		}
		for j, c := range hs {
			if len(c.hay) > 30 {
				return false
			}
			_ = j
		}
		return len(hs) <= 12
	}

	for i := 0; i < np; i++ {
		pat, src := pg.next(i)
		re, err := syntax.Parse(pat, syntax.Perl)
		if err != nil {
			st.hist("skip:parse")
			continue
		}
		std, err := regexp.Compile(pat)
		if err != nil {
			st.hist("skip:stdcompile")
			continue
		}
		n, err := nfa.NewDefaultCompiler().CompileRegexp(re)
		if err != nil {
			st.hist("skip:nfacompile")
			continue
		}
		pr := r.fork(uint64(i) + 5000)
		p := &c13btPat{idx: i, pat: pat, src: src, re: re, n: n, bt: nfa.NewBoundedBacktracker(n), std: std, dump: dumpNFA(n), r: pr}
		p.stdL, _ = regexp.Compile(pat)
		p.stdL.Longest()
		p.stdA, _ = regexp.Compile(`\A(?:` + pat + `)`)
		p.hg = newHayGen(pr.fork(7), re)
		st.hist("src:" + src)

		// (a) the long history
		maxLen := 300
		if n.States() > 2000 {
			maxLen = 80
		}
		hs := p.history(2+pr.intn(59), maxLen)
		rr.run(p, hs, "long", -1, true)

		// (b) a small history (also a Coq case)
		p.longH = nil
		small := p.history(2+pr.intn(7), 30)
		sobs := rr.run(p, small, "small", -1, false)
		if ncoq < maxCoq && coqOK(p, small, sobs) {
			emitCase(p, small, sobs)
		}

		// (c) wrap histories: Generation set directly ...
		if i%3 == 0 {
			wh := p.wrapHistory(30, true, 12)
			wobs, disc := rr.runShadow(p, wh, "wrap-direct", -1, false, true)
			if disc {
				st.hist("wrap-history-exposes-original-wrap-code(emulated)")
			}
			if nwrapCoq < 5 && disc && coqOK(p, wh, wobs) && rr.sawWrap(wobs) {
				emitCase(p, wh, wobs)
				nwrapCoq++
			}
			st.hist("history:wrap-direct")
		}
		// ... and reached with real calls
		if i%agedEvery == 0 {
			wh := p.wrapHistory(60, false, 14)
			k := 1
			for k < len(wh) && wh[k].api == 2 {
				k++
			}
			rr.run(p, wh, "wrap-aged", k, true)
			st.hist("history:wrap-aged")
		}
	}
	coq.WriteString("\n].\n")
	coq.WriteString("Definition M := Eval vm_compute in mismatches cases.\nPrint M.\n")
	coq.WriteString("Definition D := Eval vm_compute in drift_mismatches cases.\nPrint D.\n")
	coq.WriteString("(* informational: the cases on which the model of the ORIGINAL wrap code (clear Visited[:len]) answers differently *)\n")
	coq.WriteString("Definition O := Eval vm_compute in mismatches_orig cases.\nPrint O.\n")
	if err := os.WriteFile(*out, []byte(coq.String()), 0o644); err != nil {
		fatal("write %s: %v", *out, err)
	}

	st.CoqCases = ncoq
	st.Distinct = len(rr.distinct)
	st.Histogram["generation-wraps-observed"] = rr.wraps
	st.Histogram["table-resliced-within-capacity"] = rr.reslices
	st.Histogram["table-allocations"] = rr.allocs
	st.Extra["coq_wrap_cases"] = nwrapCoq
	st.Rule = "per pattern (curated + corpus + templates + grammar): one nfa.BoundedBacktracker, ONE nfa.BacktrackerState, a history of 2-60 calls over IsMatchWithState / IsMatchAnchoredWithState / SearchAtWithState(at) with state.Longest toggled and haystack lengths long-short-long (earlier long haystacks revisited shifted by one byte); every call compared with the same call on a fresh state (bt-aged-vs-fresh), one call in four repeated (bt-repeat), panics recorded (bt-panic), and compared with stdlib regexp where meaningful (bt-vs-stdlib; a different property). distinct = distinct (pattern, call)"
	st.Notes = append(st.Notes,
		"wrap-direct histories store into the exported field BacktrackerState.Generation (65533..65535) instead of making ~65534 calls; wrap-aged histories reach the wrap with real one-byte IsMatchWithState calls",
		"bt-vs-stdlib violations are expected for the known compile-level defects (case folding beyond ASCII, invalid UTF-8, \\B/$ handling); they are not C13 violations",
		"SearchAtWithState(h, at) with at > len(h)+1 panics (negative slice bound in reset); the harness keeps at <= len(h)")
	st.write(*statsPath)
	fmt.Printf("c13bt: %d patterns, %d calls, %d wraps, %d reslices, %d coq cases (%d wrap), %d violations\n", np, rr.calls, rr.wraps, rr.reslices, ncoq, nwrapCoq, st.TotalViolations)
	return 0
}

func (rr *c13btRun) sawWrap(obs []c13btObs) bool {
	for _, o := range obs {
		if o.wrapped {
			return true
		}
	}
	return false
}

// c13btSafe renders a pattern for a Coq comment (no quotes, no comment brackets).
func c13btSafe(pat string) string {
	var sb strings.Builder
	for _, c := range []byte(pat) {
		switch {
		case c >= 'a' && c <= 'z', c >= 'A' && c <= 'Z', c >= '0' && c <= '9', strings.IndexByte(" _|+?.,:-[]{}^$\\", c) >= 0:
			sb.WriteByte(c)
		default:
			fmt.Fprintf(&sb, "<%02x>", c)
		}
	}
	return sb.String()
}

func init() { register("c13bt", cmdC13bt) }
