package main

import (
	"flag"
	"fmt"
	"regexp/syntax"
	"runtime"
	"strings"

	"github.com/coregx/coregex"
	"github.com/coregx/coregex/meta"
)

// ---------------------------------------------------------------------------
// Observing "all results of one Regex on one haystack" as one canonical string.
// Used by c13-api (aged vs fresh value), c12 (configuration lattice) and c10.
// ---------------------------------------------------------------------------

var obsAPIs = []string{"Match", "FindIndex", "FindSubmatchIndex", "FindAllIndex", "FindAllSubmatchIndex3", "Count", "ReplaceAll", "FindStringIndex", "MatchString", "Split", "FindAllString2"}

func observe(re *coregex.Regex, api string, h []byte) (out string) {
	defer func() {
		if p := recover(); p != nil {
			out = fmt.Sprintf("PANIC: %v", p)
		}
	}()
	switch api {
	case "Match":
		return fmt.Sprint(re.Match(h))
	case "MatchString":
		return fmt.Sprint(re.MatchString(string(h)))
	case "FindIndex":
		return fmtInts(re.FindIndex(h))
	case "FindStringIndex":
		return fmtInts(re.FindStringIndex(string(h)))
	case "FindSubmatchIndex":
		return fmtInts(re.FindSubmatchIndex(h))
	case "FindAllIndex":
		return fmtIntss(re.FindAllIndex(h, -1))
	case "FindAllSubmatchIndex3":
		return fmtIntss(re.FindAllSubmatchIndex(h, 3))
	case "FindAllString2":
		return fmt.Sprintf("%q", re.FindAllString(string(h), 2))
	case "Count":
		return fmt.Sprint(re.Count(h, -1))
	case "ReplaceAll":
		return string(re.ReplaceAll(h, []byte("<$0>")))
	case "Split":
		return fmt.Sprintf("%q", re.Split(string(h), -1))
	}
	return "?"
}

// ---------------------------------------------------------------------------
// `c13-api`: call histories on one Regex value vs a fresh value per call.
// ---------------------------------------------------------------------------

type c13Call struct {
	api string
	hay []byte
	gc  bool
}

func cmdC13API(args []string) int {
	fs := flag.NewFlagSet("c13-api", flag.ExitOnError)
	seed := fs.Uint64("seed", 1, "seed")
	tier := fs.String("tier", "quick", "tier")
	statsPath := fs.String("stats", "stats.json", "stats")
	corpus := fs.String("corpus", "/verif/corpus/patterns_harvested.txt", "corpus")
	dump := fs.Int("dump", -1, "debug: print the call history of pattern index i")
	fs.Parse(args)
	st := newStats("C13", *seed)
	r := newRng(*seed)
	pg := &patGen{r: r.fork(1), corpus: loadCorpus(*corpus)}
	npat := 420
	if *tier == "thorough" {
		npat = 4000
	}
	distinct := distinctSet{}
	// configurations: default, and tiny DFA limits that force cache clears / fallbacks
	cfgs := []struct {
		name string
		cfg  func() meta.Config
	}{
		{"default", coregex.DefaultConfig},
		{"maxdfa=1", func() meta.Config { c := coregex.DefaultConfig(); c.MaxDFAStates = 1; return c }},
		{"maxdfa=4", func() meta.Config { c := coregex.DefaultConfig(); c.MaxDFAStates = 4; return c }},
		{"maxdfa=24,det=10", func() meta.Config {
			c := coregex.DefaultConfig()
			c.MaxDFAStates = 24
			c.DeterminizationLimit = 10
			return c
		}},
	}
	for i := 0; i < npat; i++ {
		pat, src := pg.next(i)
		ast, err := syntax.Parse(pat, syntax.Perl)
		if err != nil {
			continue
		}
		hg := newHayGen(r.fork(uint64(i)+9000), ast)
		ci := i % len(cfgs)
		cfg := cfgs[ci].cfg()
		aged, err := coregex.CompileWithConfig(pat, cfg)
		if err != nil {
			st.hist("compile-rejects")
			continue
		}
		st.hist("cfg:" + cfgs[ci].name)
		st.hist("src:" + src)
		// history: long-then-short haystacks, all APIs, occasional GC, repeated calls
		ncalls := 8 + r.intn(40)
		var calls []c13Call
		for k := 0; k < ncalls; k++ {
			var h []byte
			switch r.intn(6) {
			case 0: // long
				var parts [][]byte
				for len(concatBytes(parts...)) < 200+r.intn(1500) {
					parts = append(parts, hg.next(2+r.intn(10)))
				}
				h = concatBytes(parts...)
			case 1:
				h = []byte{}
			default:
				h = hg.next(r.intn(12))
			}
			calls = append(calls, c13Call{api: obsAPIs[r.intn(len(obsAPIs))], hay: h, gc: r.chance(6)})
			if r.chance(15) { // repeat the same call
				calls = append(calls, calls[len(calls)-1])
			}
		}
		longest := r.chance(10)
		if longest {
			aged.Longest()
		}
		if *dump == i {
			fmt.Printf("pattern %q cfg %s longest %v\n", pat, cfgs[ci].name, longest)
			for _, c := range calls {
				fmt.Printf("%s %x\n", c.api, c.hay)
			}
		}
		var hist []string
		for k, c := range calls {
			if c.gc {
				runtime.GC()
				runtime.GC()
			}
			got := observe(aged, c.api, c.hay)
			fresh, _ := coregex.CompileWithConfig(pat, cfg)
			if longest {
				fresh.Longest()
			}
			want := observe(fresh, c.api, c.hay)
			st.Evaluations++
			distinct.add(pat + "\x00" + c.api + "\x00" + string(c.hay))
			hist = append(hist, fmt.Sprintf("%s(len=%d)", c.api, len(c.hay)))
			if got != want {
				st.violate(violation{Kind: "aged-vs-fresh", Case: i,
					Detail: map[string]any{"pattern": pat, "config": cfgs[ci].name, "longest": longest, "call_index": k, "api": c.api,
						"haystack": string(c.hay), "history": strings.Join(hist, " "), "expected_fresh": want, "got_aged": got},
					Sig: fmt.Sprintf("aged-vs-fresh %s pat=%q cfg=%s call=%d hay=%x", c.api, pat, cfgs[ci].name, k, c.hay), Expected: want, Got: got})
			}
		}
		if i%60 == 0 {
			st.sample(map[string]any{"pattern": pat, "config": cfgs[ci].name, "calls": len(calls), "history_head": strings.Join(hist[:min(6, len(hist))], " ")})
		}
	}
	// ---- exhaustion phase: state-explosive patterns whose lazy DFA outgrows the DEFAULT cache only
	// over several medium calls (the clear budget is per cache and is never reset), then short
	// probes: an exhausted value must answer like a fresh one (it falls back to the NFA).
	exhaustPats := []string{`a[ab]{14}c`, `(a|b)*a(a|b){13}c`, `[ab]*b[ab]{12}x?c`, `(?i)k[xy]{15}z`, `x[01]{14}(?:y|z)`}
	nNoise := 12
	if *tier == "thorough" {
		nNoise = 48
		exhaustPats = append(exhaustPats, `a[ab]{16}c`, `(a|b|c)*a(a|b|c){9}d`)
	}
	for pi, pat := range exhaustPats {
		ast, err := syntax.Parse(pat, syntax.Perl)
		if err != nil {
			continue
		}
		aged, err := coregex.Compile(pat)
		if err != nil {
			continue
		}
		hg := newHayGen(r.fork(uint64(pi)+77000), ast)
		// alphabet of the noise: the bytes of the pattern's classes without its last literal
		alpha := map[string]string{`a[ab]{14}c`: "ab", `(a|b)*a(a|b){13}c`: "ab", `[ab]*b[ab]{12}x?c`: "ab", `(?i)k[xy]{15}z`: "kxyKXY",
			`x[01]{14}(?:y|z)`: "x01", `a[ab]{16}c`: "ab", `(a|b|c)*a(a|b|c){9}d`: "abc"}[pat]
		st.hist("exhaust-pattern")
		for k := 0; k < nNoise; k++ {
			noise := make([]byte, 64<<10)
			for i := range noise {
				noise[i] = alpha[r.intn(len(alpha))]
			}
			api := []string{"Match", "MatchString", "FindIndex", "Count"}[k%4]
			observe(aged, api, noise)
		}
		var probes [][]byte
		for k := 0; k < 24; k++ {
			probes = append(probes, hg.next(k%12))
		}
		for _, extra := range hg.perLiteral() {
			probes = append(probes, extra)
		}
		for k, h := range probes {
			if len(h) > 4096 {
				continue
			}
			for _, api := range obsAPIs {
				got := observe(aged, api, h)
				fresh, _ := coregex.Compile(pat)
				want := observe(fresh, api, h)
				st.Evaluations++
				distinct.add(pat + "\x00" + api + "\x00" + string(h))
				if got != want {
					st.violate(violation{Kind: "aged-vs-fresh", Case: 100000 + pi*1000 + k,
						Detail: map[string]any{"pattern": pat, "config": "default", "history": fmt.Sprintf("%d calls on 64 KiB of noise over %q (Match/MatchString/FindIndex/Count), then probes", nNoise, alpha),
							"api": api, "haystack": string(h), "expected_fresh": want, "got_aged": got},
						Sig: fmt.Sprintf("aged-vs-fresh(exhausted) %s pat=%q hay=%x", api, pat, h), Expected: want, Got: got})
				}
			}
		}
	}
	// ---- pairwise capture histories: one capture search followed by another on the SAME value, for every
	// ordered pair of a small family of haystacks.  Scratch that a capture search leaves behind (slot
	// buffers, per-thread capture rows) shows in the NEXT capture search, typically as a group that the
	// second match does not set but that keeps the first search's offsets.  Patterns: start-anchored and
	// un-anchored ones with groups that may not participate (not one-pass where possible), plus every 6th
	// generated pattern that has a capture group.
	pairPats := []string{`^(a+)(b+)?a*`, `^(\w+)(?:\s+(\w+))?\s*$`, `^(a|ab)(c|bcd)?(d*)`, `^(x+)(y+)?(x+)?x*`, `^(?:(a)|b)*(c)?[ab]*`,
		`(a+)(b+)?a*`, `(\w+)(?:-(\d+))?(?:\.(\w+))?`, `^\s*(\d+)?(?:px|(em))?\s*(\w*)`, `^(.*?)(,(\d+))?$`, `^(\pL+)(\d+)?\pL*`}
	for i := 0; i < npat; i += 6 {
		pat, _ := pg.next(i)
		if re, err := syntax.Parse(pat, syntax.Perl); err == nil && re.MaxCap() >= 1 && len(pairPats) < 10+npat/12 {
			pairPats = append(pairPats, pat)
		}
	}
	for pi, pat := range pairPats {
		ast, err := syntax.Parse(pat, syntax.Perl)
		if err != nil {
			continue
		}
		aged, err := coregex.Compile(pat)
		if err != nil {
			continue
		}
		st.hist("pairwise-pattern")
		hg := newHayGen(r.fork(uint64(pi)+88000), ast)
		var hs [][]byte
		for k := 0; k < 8; k++ {
			hs = append(hs, hg.next([]int{1, 1, 1, 10, 4, 8, 1, 2}[k]))
		}
		// a member continued by one more byte / cut by one byte: the last stepped thread then has its
		// groups closed while the match itself skips them
		m := sampleMatch(r, ast, 0)
		hs = append(hs, concatBytes(m, m[:min(1, len(m))]), m[:max(0, len(m)-1)])
		for a, h1 := range hs {
			for b, h2 := range hs {
				observe(aged, "FindSubmatchIndex", h1)
				for _, api := range []string{"FindSubmatchIndex", "FindAllSubmatchIndex3"} {
					got := observe(aged, api, h2)
					fresh, _ := coregex.Compile(pat)
					want := observe(fresh, api, h2)
					st.Evaluations++
					distinct.add(pat + "\x00pair\x00" + api + "\x00" + string(h1) + "\x00" + string(h2))
					if got != want {
						st.violate(violation{Kind: "aged-vs-fresh", Case: 200000 + pi*1000 + a*20 + b,
							Detail: map[string]any{"pattern": pat, "config": "default", "history": fmt.Sprintf("FindSubmatchIndex(%q), then %s", short(string(h1), 80), api),
								"api": api, "haystack": string(h2), "expected_fresh": want, "got_aged": got},
							Sig: fmt.Sprintf("aged-vs-fresh(pair) %s pat=%q h1=%x h2=%x", api, pat, h1, h2), Expected: want, Got: got})
					}
				}
			}
		}
	}
	st.Distinct = len(distinct)
	st.Rule = "per pattern one Regex value (default config or tiny DFA limits, sometimes Longest) receives a history of 8-60 calls over 11 APIs (long-then-short haystacks, repeats, runtime.GC in between); every call's result is compared with the same call on a freshly compiled value; plus an exhaustion phase: state-explosive patterns under the DEFAULT configuration receive 12 (thorough 48) calls on 64 KiB of noise, which uses up the lazy DFA's cache-clear budget, then every API on short probes vs a fresh value; plus pairwise capture histories: for curated and generated patterns with groups that may not participate, FindSubmatchIndex(h1) then FindSubmatchIndex / FindAllSubmatchIndex(h2) on the same value for every ordered pair of ~10 haystacks vs a fresh value; distinct = distinct (pattern, api, haystack)"
	st.write(*statsPath)
	return 0
}

func init() { register("c13-api", cmdC13API) }
