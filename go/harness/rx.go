package main

import (
	"encoding/hex"
	"flag"
	"fmt"
	"regexp"
	"regexp/syntax"
	"sort"
	"strings"
	"unicode"

	"github.com/coregx/coregex"
	"github.com/coregx/coregex/meta"
	"github.com/coregx/coregex/nfa"
)

func simpleFold(c rune) rune { return unicode.SimpleFold(c) }

// ---------------------------------------------------------------------------
// `rx`: differential run of the top-level API against Go's regexp (the oracle the
// properties C01–C04, C10, C11 name) and against the extracted Coq reference
// `nfa_ref` evaluated on the NFA that /repo's compiler produced for the pattern.
// ---------------------------------------------------------------------------

type rxCase struct {
	idx     int
	pat     string
	src     string
	re      *syntax.Regexp
	std     *regexp.Regexp
	cx      *coregex.Regex
	eng     *meta.Engine
	nfa     *nfa.NFA
	dump    dumpedNFA
	modelOK bool
	tags    []string
}

// patternTags: syntactic features used (a) in the evidence histogram and (b) as the
// narrow root-cause signatures of KNOWN_FINDINGS entries.
func patternTags(re *syntax.Regexp) []string {
	set := map[string]bool{}
	var walk func(r *syntax.Regexp, underRepeat bool)
	walk = func(r *syntax.Regexp, underRepeat bool) {
		switch r.Op {
		case syntax.OpLiteral:
			if r.Flags&syntax.FoldCase != 0 {
				set["fold"] = true
				for _, c := range r.Rune {
					if c >= 0x80 || unicode.SimpleFold(c) >= 0x80 && unicode.SimpleFold(c) != c {
						set["fold-nonascii"] = true
					}
				}
			}
			for _, c := range r.Rune {
				if c >= 0x80 {
					set["nonascii-lit"] = true
				}
			}
		case syntax.OpCharClass:
			for i := 0; i+1 < len(r.Rune); i += 2 {
				if r.Rune[i+1] >= 0x80 {
					set["nonascii-class"] = true
				}
			}
		case syntax.OpStar, syntax.OpPlus, syntax.OpQuest, syntax.OpRepeat:
			if r.Flags&syntax.NonGreedy != 0 {
				set["nongreedy"] = true
			}
			if r.Op != syntax.OpQuest && canBeEmpty(r.Sub[0]) {
				set["nullable-loop"] = true
			}
		case syntax.OpWordBoundary, syntax.OpNoWordBoundary:
			set["wordb"] = true
		case syntax.OpBeginLine, syntax.OpEndLine:
			set["mline"] = true
		case syntax.OpBeginText, syntax.OpEndText:
			set["textanchor"] = true
		case syntax.OpCapture:
			set["capture"] = true
		case syntax.OpAnyChar, syntax.OpAnyCharNotNL:
			set["dot"] = true
		case syntax.OpAlternate:
			set["alt"] = true
		case syntax.OpEmptyMatch:
			set["emptyop"] = true
		}
		for _, s := range r.Sub {
			walk(s, underRepeat || r.Op == syntax.OpStar || r.Op == syntax.OpPlus || r.Op == syntax.OpRepeat)
		}
	}
	walk(re, false)
	if canBeEmpty(re) {
		set["nullable"] = true
	}
	out := make([]string, 0, len(set))
	for k := range set {
		out = append(out, k)
	}
	sort.Strings(out)
	return out
}

func canBeEmpty(r *syntax.Regexp) bool {
	switch r.Op {
	case syntax.OpEmptyMatch, syntax.OpStar, syntax.OpQuest, syntax.OpBeginLine, syntax.OpEndLine, syntax.OpBeginText, syntax.OpEndText, syntax.OpWordBoundary, syntax.OpNoWordBoundary:
		return true
	case syntax.OpRepeat:
		return r.Min == 0 || canBeEmpty(r.Sub[0])
	case syntax.OpPlus, syntax.OpCapture:
		return canBeEmpty(r.Sub[0])
	case syntax.OpConcat:
		for _, s := range r.Sub {
			if !canBeEmpty(s) {
				return false
			}
		}
		return true
	case syntax.OpAlternate:
		for _, s := range r.Sub {
			if canBeEmpty(s) {
				return true
			}
		}
		return false
	case syntax.OpLiteral:
		return len(r.Rune) == 0
	}
	return false
}

func fmtInts(v []int) string {
	if v == nil {
		return "nil"
	}
	return fmt.Sprint(v)
}

func fmtIntss(v [][]int) string {
	if len(v) == 0 {
		return "[]"
	}
	return fmt.Sprint(v)
}

func sigOf(api, pat string, h []byte) string {
	return fmt.Sprintf("%s pat=%q hay=%s", api, pat, hex.EncodeToString(h))
}

type rxRun struct {
	prop     string
	st       *stats
	model    *modelProc
	distinct distinctSet
	nontriv  int
}

func (rr *rxRun) diff(c *rxCase, api string, h []byte, want, got string, extra map[string]any) {
	d := map[string]any{"api": api, "pattern": c.pat, "haystack_hex": hex.EncodeToString(h), "haystack": string(h),
		"expected": want, "got": got, "strategy": stratOf(c), "tags": c.tags, "pattern_source": c.src}
	for k, v := range extra {
		d[k] = v
	}
	rc := "api/" + stratOf(c)
	if strings.HasPrefix(api, "nfa_ref") {
		rc = "compiled-nfa-vs-regexp"
	}
	g := got
	if len(g) > 80 {
		g = g[:80]
	}
	rr.st.violate(violation{Kind: api, Case: c.idx, Detail: d, Sig: sigOf(api, c.pat, h) + " got=" + g, Expected: want, Got: got, RC: rc})
}

func stratOf(c *rxCase) string {
	if c.eng == nil {
		return "?"
	}
	return c.eng.Strategy().String()
}

func prepCase(idx int, pat, src string, model *modelProc) (*rxCase, string) {
	re, err := syntax.Parse(pat, syntax.Perl)
	if err != nil {
		return nil, "parse"
	}
	std, err := regexp.Compile(pat)
	if err != nil {
		return nil, "stdcompile"
	}
	c := &rxCase{idx: idx, pat: pat, src: src, re: re, std: std}
	c.tags = patternTags(re)
	cx, err := coregex.Compile(pat)
	if err != nil {
		return c, "cxcompile:" + err.Error()
	}
	c.cx = cx
	if eng, err := meta.Compile(pat); err == nil {
		c.eng = eng
	}
	if n, err := nfa.NewDefaultCompiler().CompileRegexp(re); err == nil {
		c.nfa = n
		c.dump = dumpNFA(n)
		if model != nil && c.dump.ok && n.States() <= 600 {
			c.modelOK = model.load(c.dump)
		}
	}
	return c, ""
}

func cmdRx(args []string) int {
	fs := flag.NewFlagSet("rx", flag.ExitOnError)
	prop := fs.String("prop", "C02", "property: C01|C02|C03")
	seed := fs.Uint64("seed", 1, "seed")
	npat := fs.Int("patterns", 400, "number of patterns")
	nhay := fs.Int("haystacks", 24, "haystacks per pattern")
	corpus := fs.String("corpus", "/verif/corpus/patterns_harvested.txt", "pattern corpus")
	modelPath := fs.String("model", "/verif/.work/bin/driver", "path of the extracted model driver (\"\" = none)")
	statsPath := fs.String("stats", "stats.json", "stats output")
	tier := fs.String("tier", "quick", "tier")
	_ = fs.String("out", "", "unused")
	fs.Parse(args)
	noLongHays = *tier == "thorough" // the thorough ledgers predate the long-haystack families (DESIGN section 5)
	if *tier == "thorough" && *npat == 400 {
		*npat = 4000
	}

	st := newStats(*prop, *seed)
	rr := &rxRun{prop: *prop, st: st, distinct: distinctSet{}}
	if *modelPath != "" {
		rr.model = startModel(*modelPath)
		defer rr.model.close()
	}
	r := newRng(*seed)
	pg := &patGen{r: r.fork(1), corpus: loadCorpus(*corpus)}
	modelQueries := 0
	late := lateCuratedFor(*tier == "thorough")
	for i := 0; i < *npat+len(late); i++ {
		var pat, src string
		if i < *npat {
			pat, src = pg.next(i)
		} else {
			pat, src = late[i-*npat], "curated-late"
		}
		c, why := prepCase(i, pat, src, rr.model)
		if c == nil {
			st.hist("skip:" + why)
			continue
		}
		if c.cx == nil {
			st.hist("coregex-rejects")
			st.Notes = appendNote(st.Notes, fmt.Sprintf("coregex rejects %q: %s (C09's business)", pat, why))
			continue
		}
		st.hist("src:" + src)
		st.hist("strategy:" + stratOf(c))
		for _, t := range c.tags {
			st.hist("tag:" + t)
		}
		hg := newHayGen(r.fork(uint64(i)+1000), c.re)
		extra := append(append(hg.perLiteral(), hg.overlapHays()...), hg.longHays()...)
		for j := 0; j < *nhay+len(extra); j++ {
			var h []byte
			if j < *nhay {
				h = hg.next(j)
			} else {
				h = extra[j-*nhay]
			}
			st.Evaluations++
			key := pat + "\x00" + string(h)
			if _, dup := rr.distinct[key]; dup {
				continue
			}
			rr.distinct.add(key)
			var trivial bool
			switch *prop {
			case "C01":
				trivial = rr.checkC01(c, h)
			case "C02":
				trivial = rr.checkC02(c, h)
			case "C03":
				trivial = rr.checkC03(c, h)
			}
			if !trivial {
				rr.nontriv++
			}
			if rr.model != nil && c.modelOK && len(h) <= 160 {
				modelQueries++
			}
			if j == 1 {
				st.sample(map[string]any{"pattern": pat, "haystack": string(h), "strategy": stratOf(c), "std": fmtInts(c.std.FindSubmatchIndex(h))})
			}
		}
	}
	st.Distinct = rr.nontriv
	st.Rule = "patterns: curated strategy triggers + harvested corpus + templates around fast-path whitelists + weighted grammar; haystacks: 12 shapes derived from the pattern's AST (members of its language in noise, near-misses, multi-line, long, invalid UTF-8, boundaries). distinct = distinct (pattern, haystack); non-trivial = the oracle reports a match, or the haystack is a near-miss/sample shape"
	st.Extra["model_queries"] = modelQueries
	st.write(*statsPath)
	return 0
}

func appendNote(ns []string, n string) []string {
	if len(ns) < 40 {
		return append(ns, n)
	}
	return ns
}

func init() { register("rx", cmdRx) }

// ---- C01 ------------------------------------------------------------------

func (rr *rxRun) checkC01(c *rxCase, h []byte) (trivial bool) {
	want := c.std.Match(h)
	s := string(h)
	obs := []struct {
		api string
		got bool
	}{
		{"Regex.Match", c.cx.Match(h)},
		{"Regex.MatchString", c.cx.MatchString(s)},
	}
	wantR := c.std.MatchReader(strings.NewReader(s))
	if g := c.cx.MatchReader(strings.NewReader(s)); g != wantR {
		rr.diff(c, "Regex.MatchReader", h, fmt.Sprint(wantR), fmt.Sprint(g), nil)
	}
	if m, err := coregex.Match(c.pat, h); err == nil {
		obs = append(obs, struct {
			api string
			got bool
		}{"coregex.Match", m})
	}
	if m, err := coregex.MatchString(c.pat, s); err == nil {
		obs = append(obs, struct {
			api string
			got bool
		}{"coregex.MatchString", m})
	}
	if m, err := coregex.MatchReader(c.pat, strings.NewReader(s)); err == nil && m != wantR {
		rr.diff(c, "coregex.MatchReader", h, fmt.Sprint(wantR), fmt.Sprint(m), nil)
	}
	if c.eng != nil {
		obs = append(obs, struct {
			api string
			got bool
		}{"meta.Engine.IsMatch", c.eng.IsMatch(h)})
	}
	for _, o := range obs {
		if o.got != want {
			rr.diff(c, o.api, h, fmt.Sprint(want), fmt.Sprint(o.got), nil)
		}
	}
	rr.modelCheck(c, h, "bool")
	return !want && len(h) < 2
}

// modelCheck compares the Coq reference run on the dumped NFA with stdlib.  A
// disagreement means the compiled NFA does not denote the pattern (or the model is
// wrong — triaged by hand, never silently accepted).
func (rr *rxRun) modelCheck(c *rxCase, h []byte, what string) {
	if rr.model == nil || !c.modelOK || len(h) > 160 {
		return
	}
	caps, ok := rr.model.find(h, 0)
	if !ok {
		rr.st.Notes = appendNote(rr.st.Notes, fmt.Sprintf("model out of fuel / error on %q", c.pat))
		return
	}
	want := c.std.FindSubmatchIndex(h)
	var w, g string
	switch what {
	case "bool":
		w, g = fmt.Sprint(want != nil), fmt.Sprint(caps != nil)
	case "span":
		if want != nil {
			w = fmt.Sprint(want[:2])
		} else {
			w = "nil"
		}
		if caps != nil {
			g = fmt.Sprint(caps[:2])
		} else {
			g = "nil"
		}
	default:
		w, g = fmtInts(want), fmtInts(caps)
	}
	if w != g {
		rr.diff(c, "nfa_ref(compiled NFA)-vs-stdlib/"+what, h, w, g, map[string]any{"nfa_states": c.nfa.States()})
	}
}

// ---- C02 ------------------------------------------------------------------

func (rr *rxRun) checkC02(c *rxCase, h []byte) (trivial bool) {
	want := c.std.FindIndex(h)
	s := string(h)
	w := fmtInts(want)
	cmp := func(api string, got []int) {
		if g := fmtInts(got); g != w {
			rr.diff(c, api, h, w, g, nil)
		}
	}
	cmp("Regex.FindIndex", c.cx.FindIndex(h))
	cmp("Regex.FindStringIndex", c.cx.FindStringIndex(s))
	if wr, gr := fmtInts(c.std.FindReaderIndex(strings.NewReader(s))), fmtInts(c.cx.FindReaderIndex(strings.NewReader(s))); wr != gr {
		rr.diff(c, "Regex.FindReaderIndex", h, wr, gr, nil)
	}
	// Find / FindString: contents and nil-ness
	wf := c.std.Find(h)
	gf := c.cx.Find(h)
	if (wf == nil) != (gf == nil) || string(wf) != string(gf) {
		rr.diff(c, "Regex.Find", h, fmt.Sprintf("%q nil=%v", wf, wf == nil), fmt.Sprintf("%q nil=%v", gf, gf == nil), nil)
	}
	if ws, gs := c.std.FindString(s), c.cx.FindString(s); ws != gs {
		rr.diff(c, "Regex.FindString", h, fmt.Sprintf("%q", ws), fmt.Sprintf("%q", gs), nil)
	}
	if c.eng != nil {
		st, en, found := c.eng.FindIndices(h)
		var got []int
		if found {
			got = []int{st, en}
		}
		cmp("meta.Engine.FindIndices", got)
		m := c.eng.Find(h)
		got = nil
		if m != nil {
			got = []int{m.Start(), m.End()}
		}
		cmp("meta.Engine.Find", got)
	}
	rr.modelCheck(c, h, "span")
	return want == nil && len(h) < 2
}

// ---- C03 ------------------------------------------------------------------

func (rr *rxRun) checkC03(c *rxCase, h []byte) (trivial bool) {
	want := c.std.FindSubmatchIndex(h)
	s := string(h)
	w := fmtInts(want)
	cmp := func(api string, got []int) {
		if g := fmtInts(got); g != w {
			rr.diff(c, api, h, w, g, nil)
		}
	}
	cmp("Regex.FindSubmatchIndex", c.cx.FindSubmatchIndex(h))
	cmp("Regex.FindStringSubmatchIndex", c.cx.FindStringSubmatchIndex(s))
	if wr, gr := fmtInts(c.std.FindReaderSubmatchIndex(strings.NewReader(s))), fmtInts(c.cx.FindReaderSubmatchIndex(strings.NewReader(s))); wr != gr {
		rr.diff(c, "Regex.FindReaderSubmatchIndex", h, wr, gr, nil)
	}
	ws := c.std.FindSubmatch(h)
	gs := c.cx.FindSubmatch(h)
	if fmtBytess(ws) != fmtBytess(gs) {
		rr.diff(c, "Regex.FindSubmatch", h, fmtBytess(ws), fmtBytess(gs), nil)
	}
	wss := c.std.FindStringSubmatch(s)
	gss := c.cx.FindStringSubmatch(s)
	if fmt.Sprintf("%q", wss) != fmt.Sprintf("%q", gss) {
		rr.diff(c, "Regex.FindStringSubmatch", h, fmt.Sprintf("%q", wss), fmt.Sprintf("%q", gss), nil)
	}
	if want != nil && len(want) != 2*(c.cx.NumSubexp()+1) {
		rr.diff(c, "NumSubexp+1 groups", h, fmt.Sprint(len(want)/2), fmt.Sprint(c.cx.NumSubexp()+1), nil)
	}
	if c.eng != nil {
		m := c.eng.FindSubmatch(h)
		var got []int
		if m != nil {
			for g := 0; g < m.NumCaptures(); g++ {
				idx := m.GroupIndex(g)
				if len(idx) >= 2 {
					got = append(got, idx[0], idx[1])
				} else {
					got = append(got, -1, -1)
				}
			}
		}
		cmp("meta.Engine.FindSubmatch", got)
	}
	rr.modelCheck(c, h, "caps")
	return want == nil && len(h) < 2
}

func fmtBytess(v [][]byte) string {
	if v == nil {
		return "nil"
	}
	parts := make([]string, len(v))
	for i, b := range v {
		if b == nil {
			parts[i] = "<nil>"
		} else {
			parts[i] = fmt.Sprintf("%q", b)
		}
	}
	return "[" + strings.Join(parts, " ") + "]"
}
