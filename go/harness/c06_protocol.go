package main

// Sub-command c06-protocol (property C06, Coq side: /verif/coq/Pool.v).
//
// Reads the *current* source of /repo/meta/engine.go and /repo/meta/search_state.go
// with go/parser and regenerates the action lists `src_get` / `src_put` that
// Pool.v's `protocol_ok` compares with the protocol the ownership theorems are
// about.  Nothing of coregex is executed here; this is a source-to-model tie.
//
// Mapping source -> Pool.action (source order, searchStatePool.get/put inlined
// between AInline/AEndInline at their call site e.statePool.get()/put(x)):
//
//	x := e.localState.Swap(nil)              ASwapSlot   (argument not nil: AOther)
//	x := e.localState.Load()                 ALoadSlot
//	e.localState.Store(x)                    AStoreSlot
//	e.localState.CompareAndSwap(nil, x)      ACasSlot    (other arguments: AOther)
//	p.pool.Get()                             APoolGet
//	p.pool.Put(x)                            APoolPut
//	x.reset()                                AReset
//	if x == nil {                            AIfNil      (x: parameter / Swap-Load-get result)
//	if <CAS call> {                          ACasSlot AIfCasOk
//	if !<CAS call> {                         ACasSlot AIfCasFail
//	other `if` containing any of the above
//	  or a return                            (actions of the condition) AIfOther
//	} else {                                 AElse
//	}                                        AEndIf
//	return inside a block, or at top level
//	  before the last statement              AReturn
//	for/range/switch/select/go/defer/closure
//	  containing any of the above; any other
//	  method of the slot or the sync.Pool    AOther
//
// `if` statements containing none of these (the Longest set-up in getSearchState)
// and the final top-level return are not emitted.  The slot field is the field of
// Engine of type atomic.Pointer[SearchState], the pool field the sync.Pool field of
// searchStatePool, the state-pool field the *searchStatePool field of Engine (found
// by type, with the names of the pinned tree as fall-back).
//
// It also reports (stats file, `extra`):
//   - every method of *Engine (non-test files of /repo/meta) that calls
//     getSearchState, with the number of gets / deferred puts / plain puts and the
//     result of a syntactic path check (a return reached while a state is held and
//     no deferred put is pending is "unbalanced");
//   - every plain (non sync/atomic) assignment / ++ / -- to memory rooted at the
//     *Engine receiver inside a method that is not a constructor or setter
//     (name prefix New/Compile/build/init/Set): "engine-field writes on search path";
//   - every call of a method on the engine-level simulator e.pikevm in such methods.

import (
	"flag"
	"fmt"
	"go/ast"
	"go/parser"
	"go/token"
	"os"
	"path/filepath"
	"sort"
	"strings"
)

func init() { register("c06-protocol", c06pMain) }

// names of the pinned tree (fall-back when the struct scan finds nothing)
const (
	c06pDefSlot      = "localState"
	c06pDefStatePool = "statePool"
	c06pDefPool      = "pool"
)

var c06pCanonGet = []string{"ASwapSlot", "AIfNil", "AInline", "APoolGet", "AEndInline", "AEndIf"}
var c06pCanonPut = []string{"AIfNil", "AReturn", "AEndIf", "AReset", "ACasSlot", "AIfCasOk", "AReturn", "AEndIf",
	"AInline", "AIfNil", "AReturn", "AEndIf", "AReset", "APoolPut", "AEndInline"}

type c06pCtx struct {
	fset      *token.FileSet
	slot      string                   // field name of the atomic slot in Engine
	statePool string                   // field name of the *searchStatePool in Engine
	pool      string                   // field name of the sync.Pool in searchStatePool
	funcs     map[string]*ast.FuncDecl // "Recv.name" -> decl
	depth     int                      // inlining depth
}

type c06pEmitter struct {
	ctx       *c06pCtx
	out       []string
	pos       []string // file:line of each action
	stateVars map[string]bool
}

func (em *c06pEmitter) emit(a string, p token.Pos) {
	em.out = append(em.out, a)
	ps := em.ctx.fset.Position(p)
	em.pos = append(em.pos, fmt.Sprintf("%s:%d", filepath.Base(ps.Filename), ps.Line))
}

func c06pRecvType(fd *ast.FuncDecl) string {
	if fd.Recv == nil || len(fd.Recv.List) == 0 {
		return ""
	}
	t := fd.Recv.List[0].Type
	if s, ok := t.(*ast.StarExpr); ok {
		t = s.X
	}
	if ix, ok := t.(*ast.IndexExpr); ok {
		t = ix.X
	}
	if id, ok := t.(*ast.Ident); ok {
		return id.Name
	}
	return ""
}

func c06pRecvName(fd *ast.FuncDecl) string {
	if fd.Recv == nil || len(fd.Recv.List) == 0 || len(fd.Recv.List[0].Names) == 0 {
		return ""
	}
	return fd.Recv.List[0].Names[0].Name
}

func c06pExprString(e ast.Expr) string {
	switch x := e.(type) {
	case *ast.Ident:
		return x.Name
	case *ast.SelectorExpr:
		return c06pExprString(x.X) + "." + x.Sel.Name
	case *ast.StarExpr:
		return "*" + c06pExprString(x.X)
	case *ast.IndexExpr:
		return c06pExprString(x.X) + "[" + c06pExprString(x.Index) + "]"
	case *ast.ParenExpr:
		return "(" + c06pExprString(x.X) + ")"
	case *ast.BasicLit:
		return x.Value
	case *ast.CallExpr:
		return c06pExprString(x.Fun) + "(…)"
	case *ast.UnaryExpr:
		return x.Op.String() + c06pExprString(x.X)
	}
	return fmt.Sprintf("%T", e)
}

func c06pIsNil(e ast.Expr) bool {
	id, ok := e.(*ast.Ident)
	return ok && id.Name == "nil"
}

// lastSel returns the final selector name of a selector chain (a.b.c -> "c").
func c06pLastSel(e ast.Expr) string {
	if s, ok := e.(*ast.SelectorExpr); ok {
		return s.Sel.Name
	}
	return ""
}

// classify one call; returns "" when the call is not a synchronisation action.
// inline is the callee to inline (get/put of the state pool), if any.
func (em *c06pEmitter) classify(c *ast.CallExpr) (act string, inline *ast.FuncDecl) {
	sel, ok := c.Fun.(*ast.SelectorExpr)
	if !ok {
		return "", nil
	}
	m := sel.Sel.Name
	recvLast := c06pLastSel(sel.X)
	isStateVar := func(e ast.Expr) bool {
		id, ok := e.(*ast.Ident)
		return ok && em.stateVars[id.Name]
	}
	switch {
	case recvLast == em.ctx.slot:
		switch m {
		case "Swap":
			if len(c.Args) == 1 && c06pIsNil(c.Args[0]) {
				return "ASwapSlot", nil
			}
		case "Load":
			if len(c.Args) == 0 {
				return "ALoadSlot", nil
			}
		case "Store":
			if len(c.Args) == 1 && isStateVar(c.Args[0]) {
				return "AStoreSlot", nil
			}
		case "CompareAndSwap":
			if len(c.Args) == 2 && c06pIsNil(c.Args[0]) && isStateVar(c.Args[1]) {
				return "ACasSlot", nil
			}
		}
		return "AOther", nil
	case recvLast == em.ctx.pool:
		switch m {
		case "Get":
			if len(c.Args) == 0 {
				return "APoolGet", nil
			}
		case "Put":
			if len(c.Args) == 1 && isStateVar(c.Args[0]) {
				return "APoolPut", nil
			}
		}
		return "AOther", nil
	case recvLast == em.ctx.statePool:
		if fd := em.ctx.funcs["searchStatePool."+m]; fd != nil {
			return "AInline", fd
		}
		return "AOther", nil
	case m == "reset" && len(c.Args) == 0:
		if isStateVar(sel.X) {
			return "AReset", nil
		}
	}
	return "", nil
}

// calls in evaluation order (inner before outer, left to right): sort by End.
func c06pCalls(n ast.Node) []*ast.CallExpr {
	var cs []*ast.CallExpr
	if n == nil {
		return nil
	}
	ast.Inspect(n, func(x ast.Node) bool {
		if c, ok := x.(*ast.CallExpr); ok {
			cs = append(cs, c)
		}
		return true
	})
	sort.SliceStable(cs, func(i, j int) bool { return cs[i].End() < cs[j].End() })
	return cs
}

func (em *c06pEmitter) exprActions(n ast.Node) {
	if n == nil {
		return
	}
	for _, c := range c06pCalls(n) {
		act, inl := em.classify(c)
		if act == "" {
			continue
		}
		if inl != nil {
			if em.ctx.depth >= 3 {
				em.emit("AOther", c.Pos())
				continue
			}
			em.emit("AInline", c.Pos())
			sub := &c06pEmitter{ctx: em.ctx, stateVars: map[string]bool{}}
			// the callee's state variable is its first parameter
			if inl.Type.Params != nil {
				for _, f := range inl.Type.Params.List {
					for _, nm := range f.Names {
						sub.stateVars[nm.Name] = true
					}
				}
			}
			em.ctx.depth++
			sub.walkStmts(inl.Body.List, true)
			em.ctx.depth--
			em.out = append(em.out, sub.out...)
			em.pos = append(em.pos, sub.pos...)
			em.emit("AEndInline", c.End())
			continue
		}
		em.emit(act, c.Pos())
	}
}

// relevant: the node contains a synchronisation action or a return.
func (em *c06pEmitter) relevant(n ast.Node) bool {
	if n == nil {
		return false
	}
	found := false
	ast.Inspect(n, func(x ast.Node) bool {
		if found {
			return false
		}
		switch y := x.(type) {
		case *ast.ReturnStmt:
			found = true
		case *ast.CallExpr:
			if a, _ := em.classify(y); a != "" {
				found = true
			}
		}
		return !found
	})
	return found
}

func (em *c06pEmitter) trackAssign(st *ast.AssignStmt) {
	// x := <slot>.Swap/Load(...) / <statePool>.get() / <pool>.Get()  =>  x is a state variable
	if len(st.Lhs) != 1 || len(st.Rhs) != 1 {
		return
	}
	id, ok := st.Lhs[0].(*ast.Ident)
	if !ok {
		return
	}
	rhs := st.Rhs[0]
	if ta, ok := rhs.(*ast.TypeAssertExpr); ok {
		rhs = ta.X
	}
	c, ok := rhs.(*ast.CallExpr)
	if !ok {
		return
	}
	a, inl := em.classify(c)
	if a == "ASwapSlot" || a == "ALoadSlot" || a == "APoolGet" || (inl != nil && inl.Name.Name == "get") {
		em.stateVars[id.Name] = true
	}
}

func (em *c06pEmitter) walkIf(ifs *ast.IfStmt) {
	if ifs.Init != nil {
		em.walkStmts([]ast.Stmt{ifs.Init}, false)
	}
	if !em.relevant(ifs) {
		return
	}
	cond := ifs.Cond
	if p, ok := cond.(*ast.ParenExpr); ok {
		cond = p.X
	}
	kind := "AIfOther"
	switch c := cond.(type) {
	case *ast.BinaryExpr:
		if c.Op == token.EQL {
			var other ast.Expr
			if c06pIsNil(c.Y) {
				other = c.X
			} else if c06pIsNil(c.X) {
				other = c.Y
			}
			if id, ok := other.(*ast.Ident); ok && em.stateVars[id.Name] {
				kind = "AIfNil"
			}
		}
	case *ast.CallExpr:
		if a, _ := em.classify(c); a == "ACasSlot" {
			kind = "AIfCasOk"
		}
	case *ast.UnaryExpr:
		if c.Op == token.NOT {
			x := c.X
			if p, ok := x.(*ast.ParenExpr); ok {
				x = p.X
			}
			if cc, ok := x.(*ast.CallExpr); ok {
				if a, _ := em.classify(cc); a == "ACasSlot" {
					kind = "AIfCasFail"
				}
			}
		}
	}
	em.exprActions(ifs.Cond)
	em.emit(kind, ifs.Pos())
	em.walkStmts(ifs.Body.List, false)
	if ifs.Else != nil {
		em.emit("AElse", ifs.Else.Pos())
		switch e := ifs.Else.(type) {
		case *ast.IfStmt:
			em.walkIf(e)
		case *ast.BlockStmt:
			em.walkStmts(e.List, false)
		}
	}
	em.emit("AEndIf", ifs.End())
}

func (em *c06pEmitter) walkStmts(stmts []ast.Stmt, top bool) {
	for i, st := range stmts {
		switch s := st.(type) {
		case *ast.IfStmt:
			em.walkIf(s)
		case *ast.ReturnStmt:
			em.exprActions(s)
			if !(top && i == len(stmts)-1) {
				em.emit("AReturn", s.Pos())
			}
		case *ast.BlockStmt:
			em.walkStmts(s.List, false)
		case *ast.AssignStmt:
			em.exprActions(s)
			em.trackAssign(s)
		case *ast.ExprStmt, *ast.DeclStmt, *ast.IncDecStmt, *ast.SendStmt:
			em.exprActions(s)
		case *ast.EmptyStmt:
		default:
			// for / range / switch / select / go / defer / labeled …
			if em.relevant(s) {
				em.emit("AOther", s.Pos())
				em.exprActions(s)
			}
		}
	}
}

func c06pExtract(ctx *c06pCtx, key string) ([]string, []string, bool) {
	fd := ctx.funcs[key]
	if fd == nil || fd.Body == nil {
		return nil, nil, false
	}
	em := &c06pEmitter{ctx: ctx, stateVars: map[string]bool{}}
	if fd.Type.Params != nil {
		for _, f := range fd.Type.Params.List {
			for _, nm := range f.Names {
				em.stateVars[nm.Name] = true
			}
		}
	}
	em.walkStmts(fd.Body.List, true)
	return em.out, em.pos, true
}

// ---------------------------------------------------------------------------
// struct scan: find the slot / pool / state-pool fields by type
// ---------------------------------------------------------------------------

func c06pTypeString(e ast.Expr) string {
	switch x := e.(type) {
	case *ast.Ident:
		return x.Name
	case *ast.SelectorExpr:
		return c06pTypeString(x.X) + "." + x.Sel.Name
	case *ast.StarExpr:
		return "*" + c06pTypeString(x.X)
	case *ast.IndexExpr:
		return c06pTypeString(x.X) + "[" + c06pTypeString(x.Index) + "]"
	}
	return ""
}

func c06pScanStructs(ctx *c06pCtx, files []*ast.File) {
	for _, f := range files {
		for _, d := range f.Decls {
			gd, ok := d.(*ast.GenDecl)
			if !ok || gd.Tok != token.TYPE {
				continue
			}
			for _, sp := range gd.Specs {
				ts := sp.(*ast.TypeSpec)
				stt, ok := ts.Type.(*ast.StructType)
				if !ok {
					continue
				}
				for _, fl := range stt.Fields.List {
					t := c06pTypeString(fl.Type)
					for _, nm := range fl.Names {
						switch {
						case ts.Name.Name == "Engine" && t == "atomic.Pointer[SearchState]":
							ctx.slot = nm.Name
						case ts.Name.Name == "Engine" && t == "*searchStatePool":
							ctx.statePool = nm.Name
						case ts.Name.Name == "searchStatePool" && t == "sync.Pool":
							ctx.pool = nm.Name
						}
					}
				}
			}
		}
	}
}

// ---------------------------------------------------------------------------
// get/put balance of the callers
// ---------------------------------------------------------------------------

type c06pCaller struct {
	Func      string `json:"func"`
	Pos       string `json:"pos"`
	Exported  bool   `json:"exported"`
	Gets      int    `json:"gets"`
	DeferPuts int    `json:"defer_puts"`
	PlainPuts int    `json:"plain_puts"`
	Verdict   string `json:"verdict"` // "balanced" or the reason
}

type c06pFlow struct {
	fset     *token.FileSet
	problems []string
}

func c06pCallName(c *ast.CallExpr) string {
	if s, ok := c.Fun.(*ast.SelectorExpr); ok {
		return s.Sel.Name
	}
	return ""
}

// countIn counts direct calls of name in the expression/statement (closures included).
func c06pCountCalls(n ast.Node, name string) int {
	k := 0
	if n == nil {
		return 0
	}
	ast.Inspect(n, func(x ast.Node) bool {
		if c, ok := x.(*ast.CallExpr); ok && c06pCallName(c) == name {
			k++
		}
		return true
	})
	return k
}

// flow walks statements with the number of states currently held and not yet
// covered by a deferred put; returns (held after, every path terminated).
func (fl *c06pFlow) flow(stmts []ast.Stmt, held int) (int, bool) {
	for _, st := range stmts {
		var term bool
		held, term = fl.stmt(st, held)
		if term {
			return held, true
		}
	}
	return held, false
}

func (fl *c06pFlow) simple(n ast.Node, held int) int {
	held += c06pCountCalls(n, "getSearchState")
	held -= c06pCountCalls(n, "putSearchState")
	return held
}

func (fl *c06pFlow) stmt(st ast.Stmt, held int) (int, bool) {
	switch s := st.(type) {
	case nil:
		return held, false
	case *ast.ReturnStmt:
		held = fl.simple(s, held)
		if held > 0 {
			fl.problems = append(fl.problems, fmt.Sprintf("return at line %d with %d state(s) held", fl.fset.Position(s.Pos()).Line, held))
		}
		return held, true
	case *ast.DeferStmt:
		// a deferred put releases at every later return
		return held - c06pCountCalls(s, "putSearchState") + c06pCountCalls(s, "getSearchState"), false
	case *ast.BlockStmt:
		return fl.flow(s.List, held)
	case *ast.IfStmt:
		if s.Init != nil {
			held, _ = fl.stmt(s.Init, held)
		}
		held = fl.simple(s.Cond, held)
		h1, t1 := fl.flow(s.Body.List, held)
		h2, t2 := held, false
		if s.Else != nil {
			h2, t2 = fl.stmt(s.Else, held)
		}
		switch {
		case t1 && t2:
			return h1, true
		case t1:
			return h2, false
		case t2:
			return h1, false
		}
		if h1 != h2 {
			fl.problems = append(fl.problems, fmt.Sprintf("if at line %d: branches leave %d vs %d state(s) held", fl.fset.Position(s.Pos()).Line, h1, h2))
			if h2 > h1 {
				h1 = h2
			}
		}
		return h1, false
	case *ast.ForStmt:
		if s.Init != nil {
			held, _ = fl.stmt(s.Init, held)
		}
		if s.Cond != nil {
			held = fl.simple(s.Cond, held)
		}
		h, _ := fl.flow(s.Body.List, held)
		if h != held {
			fl.problems = append(fl.problems, fmt.Sprintf("loop at line %d changes the number of held states (%d -> %d)", fl.fset.Position(s.Pos()).Line, held, h))
		}
		return held, false
	case *ast.RangeStmt:
		held = fl.simple(s.X, held)
		h, _ := fl.flow(s.Body.List, held)
		if h != held {
			fl.problems = append(fl.problems, fmt.Sprintf("loop at line %d changes the number of held states (%d -> %d)", fl.fset.Position(s.Pos()).Line, held, h))
		}
		return held, false
	case *ast.SwitchStmt:
		if s.Init != nil {
			held, _ = fl.stmt(s.Init, held)
		}
		if s.Tag != nil {
			held = fl.simple(s.Tag, held)
		}
		return fl.cases(s.Body, held, s.Pos())
	case *ast.TypeSwitchStmt:
		return fl.cases(s.Body, held, s.Pos())
	case *ast.SelectStmt:
		return fl.cases(s.Body, held, s.Pos())
	case *ast.LabeledStmt:
		return fl.stmt(s.Stmt, held)
	default:
		return fl.simple(st, held), false
	}
}

func (fl *c06pFlow) cases(body *ast.BlockStmt, held int, p token.Pos) (int, bool) {
	out := -1
	allTerm := true
	hasDefault := false
	for _, cl := range body.List {
		var list []ast.Stmt
		switch c := cl.(type) {
		case *ast.CaseClause:
			list = c.Body
			if c.List == nil {
				hasDefault = true
			}
		case *ast.CommClause:
			list = c.Body
			if c.Comm == nil {
				hasDefault = true
			}
		}
		h, t := fl.flow(list, held)
		if t {
			continue
		}
		allTerm = false
		if out == -1 {
			out = h
		} else if out != h {
			fl.problems = append(fl.problems, fmt.Sprintf("switch at line %d: cases leave %d vs %d state(s) held", fl.fset.Position(p).Line, out, h))
			if h > out {
				out = h
			}
		}
	}
	if !hasDefault {
		allTerm = false
		if out == -1 {
			out = held
		} else if out != held {
			fl.problems = append(fl.problems, fmt.Sprintf("switch at line %d: fall-out keeps %d, a case leaves %d state(s) held", fl.fset.Position(p).Line, held, out))
		}
	}
	if allTerm {
		return held, true
	}
	if out == -1 {
		out = held
	}
	return out, false
}

// ---------------------------------------------------------------------------
// engine-field writes / engine-level simulator calls
// ---------------------------------------------------------------------------

type c06pSite struct {
	Pos    string `json:"pos"`
	Func   string `json:"func"`
	Target string `json:"target"`
	Stmt   string `json:"stmt"`
}

// rootedAt reports whether e is a selector/index/deref chain of depth >= 1 rooted at ident recv.
func c06pRootedAt(e ast.Expr, recv string) bool {
	depth := 0
	for {
		switch x := e.(type) {
		case *ast.SelectorExpr:
			e = x.X
			depth++
		case *ast.IndexExpr:
			e = x.X
		case *ast.StarExpr:
			e = x.X
		case *ast.ParenExpr:
			e = x.X
		case *ast.Ident:
			return depth >= 1 && x.Name == recv
		default:
			return false
		}
	}
}

func c06pIsSetup(name string) bool {
	for _, p := range []string{"New", "Compile", "build", "init", "Set"} {
		if strings.HasPrefix(name, p) {
			return true
		}
	}
	return false
}

// ---------------------------------------------------------------------------

func c06pCoqList(xs []string) string { return "[" + strings.Join(xs, "; ") + "]" }

func c06pEqual(a, b []string) bool {
	if len(a) != len(b) {
		return false
	}
	for i := range a {
		if a[i] != b[i] {
			return false
		}
	}
	return true
}

func c06pMain(args []string) int {
	fs := flag.NewFlagSet("c06-protocol", flag.ExitOnError)
	repo := fs.String("repo", "/repo", "root of the coregex tree")
	engineFile := fs.String("engine-file", "", "override the path of meta/engine.go (self-test with a mutated copy)")
	stateFile := fs.String("state-file", "", "override the path of meta/search_state.go")
	out := fs.String("out", "c06_protocol.v", "Coq file to write")
	statsPath := fs.String("stats", "c06_protocol.json", "stats file to write")
	expect := fs.Bool("expect", true, "verdict of protocol_ok expected for these sources (false for a mutated copy)")
	seed := fs.Uint64("seed", 0, "unused (the extraction is deterministic)")
	_ = fs.Int("n", 0, "unused")
	_ = fs.String("tier", "quick", "unused")
	if err := fs.Parse(args); err != nil {
		return 2
	}
	metaDir := filepath.Join(*repo, "meta")
	engPath := filepath.Join(metaDir, "engine.go")
	if *engineFile != "" {
		engPath = *engineFile
	}
	ssPath := filepath.Join(metaDir, "search_state.go")
	if *stateFile != "" {
		ssPath = *stateFile
	}

	st := newStats("C06", *seed)
	st.Rule = "protocol_ok src_get src_put = expected, with src_get/src_put regenerated from engine.go/search_state.go; callers' get/put balance and plain writes to Engine memory are listed in extra"

	fset := token.NewFileSet()
	ctx := &c06pCtx{fset: fset, slot: c06pDefSlot, statePool: c06pDefStatePool, pool: c06pDefPool, funcs: map[string]*ast.FuncDecl{}}

	parse := func(p string) *ast.File {
		f, err := parser.ParseFile(fset, p, nil, parser.SkipObjectResolution)
		if err != nil {
			fatal("c06-protocol: parse %s: %v", p, err)
		}
		return f
	}
	engF := parse(engPath)
	ssF := parse(ssPath)
	c06pScanStructs(ctx, []*ast.File{engF, ssF})
	for _, f := range []*ast.File{engF, ssF} {
		for _, d := range f.Decls {
			if fd, ok := d.(*ast.FuncDecl); ok && fd.Recv != nil {
				ctx.funcs[c06pRecvType(fd)+"."+fd.Name.Name] = fd
			}
		}
	}

	getActs, getPos, okG := c06pExtract(ctx, "Engine.getSearchState")
	putActs, putPos, okP := c06pExtract(ctx, "Engine.putSearchState")
	if !okG {
		st.Notes = append(st.Notes, "Engine.getSearchState not found in "+engPath)
		getActs = []string{"AOther"}
	}
	if !okP {
		st.Notes = append(st.Notes, "Engine.putSearchState not found in "+engPath)
		putActs = []string{"AOther"}
	}
	pget, _, _ := c06pExtract(ctx, "searchStatePool.get")
	pput, _, _ := c06pExtract(ctx, "searchStatePool.put")
	st.Evaluations = 4
	st.Extra["engine_file"] = engPath
	st.Extra["state_file"] = ssPath
	st.Extra["fields"] = map[string]string{"slot": ctx.slot, "state_pool": ctx.statePool, "pool": ctx.pool}
	st.Extra["src_get"] = getActs
	st.Extra["src_get_pos"] = getPos
	st.Extra["src_put"] = putActs
	st.Extra["src_put_pos"] = putPos
	st.Extra["pool_get"] = pget
	st.Extra["pool_put"] = pput
	canon := c06pEqual(getActs, c06pCanonGet) && c06pEqual(putActs, c06pCanonPut)
	st.Extra["equals_pinned_protocol"] = canon
	st.sample(map[string]any{"src_get": strings.Join(getActs, " "), "src_put": strings.Join(putActs, " ")})
	if canon {
		st.hist("protocol:pinned")
	} else {
		st.hist("protocol:differs")
	}
	if canon != *expect {
		st.violate(violation{
			Kind: "protocol-differs", Case: 0,
			Detail:   map[string]any{"src_get": getActs, "src_put": putActs, "engine_file": engPath},
			Sig:      "c06-protocol:" + strings.Join(getActs, ",") + "|" + strings.Join(putActs, ","),
			Expected: fmt.Sprintf("pinned=%v", *expect), Got: fmt.Sprintf("pinned=%v", canon),
		})
	}

	// ---- callers of getSearchState, engine-field writes, e.pikevm calls ----
	paths, _ := filepath.Glob(filepath.Join(metaDir, "*.go"))
	sort.Strings(paths)
	var callers, unbalanced []c06pCaller
	var writes, simCalls []c06pSite
	nMethods := 0
	for _, p := range paths {
		if strings.HasSuffix(p, "_test.go") {
			continue
		}
		var f *ast.File
		if filepath.Clean(p) == filepath.Clean(filepath.Join(metaDir, "engine.go")) {
			f = engF // the (possibly overridden) engine file
		} else if filepath.Clean(p) == filepath.Clean(filepath.Join(metaDir, "search_state.go")) {
			f = ssF
		} else {
			f = parse(p)
		}
		base := filepath.Base(p)
		for _, d := range f.Decls {
			fd, ok := d.(*ast.FuncDecl)
			if !ok || fd.Body == nil || c06pRecvType(fd) != "Engine" {
				continue
			}
			nMethods++
			name := fd.Name.Name
			line := fset.Position(fd.Pos()).Line
			if name != "getSearchState" && name != "putSearchState" {
				gets := c06pCountCalls(fd.Body, "getSearchState")
				if gets > 0 {
					c := c06pCaller{Func: name, Pos: fmt.Sprintf("%s:%d", base, line), Exported: ast.IsExported(name), Gets: gets}
					ast.Inspect(fd.Body, func(x ast.Node) bool {
						if ds, ok := x.(*ast.DeferStmt); ok {
							c.DeferPuts += c06pCountCalls(ds, "putSearchState")
						}
						return true
					})
					c.PlainPuts = c06pCountCalls(fd.Body, "putSearchState") - c.DeferPuts
					fl := &c06pFlow{fset: fset}
					h, term := fl.flow(fd.Body.List, 0)
					if !term && h > 0 {
						fl.problems = append(fl.problems, fmt.Sprintf("function end reached with %d state(s) held", h))
					}
					if c.DeferPuts+c.PlainPuts < c.Gets {
						fl.problems = append(fl.problems, fmt.Sprintf("%d get(s) but only %d put(s)", c.Gets, c.DeferPuts+c.PlainPuts))
					}
					if len(fl.problems) == 0 {
						c.Verdict = "balanced"
					} else {
						c.Verdict = strings.Join(fl.problems, "; ")
						unbalanced = append(unbalanced, c)
					}
					callers = append(callers, c)
				}
			}
			if c06pIsSetup(name) {
				continue
			}
			recv := c06pRecvName(fd)
			if recv == "" {
				continue
			}
			ast.Inspect(fd.Body, func(x ast.Node) bool {
				switch s := x.(type) {
				case *ast.AssignStmt:
					for _, l := range s.Lhs {
						if c06pRootedAt(l, recv) {
							ps := fset.Position(s.Pos())
							writes = append(writes, c06pSite{Pos: fmt.Sprintf("%s:%d", base, ps.Line), Func: name,
								Target: c06pExprString(l), Stmt: c06pExprString(l) + " " + s.Tok.String() + " …"})
						}
					}
				case *ast.IncDecStmt:
					if c06pRootedAt(s.X, recv) {
						ps := fset.Position(s.Pos())
						writes = append(writes, c06pSite{Pos: fmt.Sprintf("%s:%d", base, ps.Line), Func: name,
							Target: c06pExprString(s.X), Stmt: c06pExprString(s.X) + s.Tok.String()})
					}
				case *ast.CallExpr:
					if sel, ok := s.Fun.(*ast.SelectorExpr); ok {
						if in, ok := sel.X.(*ast.SelectorExpr); ok && in.Sel.Name == "pikevm" {
							if id, ok := in.X.(*ast.Ident); ok && id.Name == recv {
								ps := fset.Position(s.Pos())
								simCalls = append(simCalls, c06pSite{Pos: fmt.Sprintf("%s:%d", base, ps.Line), Func: name,
									Target: recv + ".pikevm", Stmt: recv + ".pikevm." + sel.Sel.Name + "(…)"})
							}
						}
					}
				}
				return true
			})
		}
	}
	st.Evaluations += nMethods
	st.Distinct = len(callers)
	st.Extra["engine_methods_scanned"] = nMethods
	st.Extra["callers_of_getSearchState"] = callers
	if unbalanced == nil {
		unbalanced = []c06pCaller{}
	}
	st.Extra["unbalanced_get_put"] = unbalanced
	if writes == nil {
		writes = []c06pSite{}
	}
	st.Extra["engine_field_writes_on_search_path"] = writes
	if simCalls == nil {
		simCalls = []c06pSite{}
	}
	st.Extra["engine_level_pikevm_calls"] = simCalls
	st.Histogram["callers"] = len(callers)
	st.Histogram["callers:exported"] = 0
	for _, c := range callers {
		if c.Exported {
			st.Histogram["callers:exported"]++
		}
		if c.DeferPuts > 0 {
			st.hist("callers:defer-put")
		} else {
			st.hist("callers:explicit-put")
		}
	}
	st.Histogram["unbalanced"] = len(unbalanced)
	st.Histogram["engine-field-writes"] = len(writes)
	st.Histogram["engine-level-pikevm-calls"] = len(simCalls)
	for _, u := range unbalanced {
		st.sample(map[string]any{"unbalanced": u})
	}
	for _, w := range writes {
		st.sample(map[string]any{"engine_field_write": w})
	}

	// ---- Coq file ----
	var sb strings.Builder
	sb.WriteString("(* generated by `harness c06-protocol` from\n     " + engPath + "\n     " + ssPath + " *)\n")
	sb.WriteString("From Coq Require Import List NArith.\nFrom CV Require Import Pool.\nImport ListNotations.\n\n")
	sb.WriteString("Definition src_get : list action := " + c06pCoqList(getActs) + ".\n")
	sb.WriteString("Definition src_put : list action := " + c06pCoqList(putActs) + ".\n\n")
	sb.WriteString("Definition P := Eval vm_compute in protocol_ok src_get src_put.\nPrint P.\n")
	sb.WriteString("Definition V := Eval vm_compute in variant_of_protocol src_get src_put.\nPrint V.\n\n")
	sb.WriteString("Definition cases : list case := [mkCase 0%N src_get src_put " + coqBool(*expect) + "].\n")
	sb.WriteString("Definition M := Eval vm_compute in mismatches cases.\nPrint M.\n")
	if err := os.WriteFile(*out, []byte(sb.String()), 0o644); err != nil {
		fatal("c06-protocol: %v", err)
	}
	st.CoqCases = 1
	st.write(*statsPath)
	fmt.Printf("c06-protocol: get=%v put=%v pinned=%v callers=%d unbalanced=%d engine-field-writes=%d e.pikevm-calls=%d\n",
		getActs, putActs, canon, len(callers), len(unbalanced), len(writes), len(simCalls))
	return 0
}
