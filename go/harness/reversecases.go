package main

import (
	"flag"
	"fmt"
	"os"
	"regexp/syntax"
	"strings"

	"github.com/coregx/coregex/dfa/lazy"
	"github.com/coregx/coregex/nfa"
)

// ---------------------------------------------------------------------------
// reverse-cases — correspondence cases for Reverse.v (the Gallina model of nfa/reverse.go:
// Reverse / ReverseAnchored, property C14).
//
// Per pattern (curated reverse-specific patterns + templates + grammar + a corpus sample) the
// forward automaton is compiled as the meta engine does (nfa.NewCompiler with UTF8, not
// anchored, no DotNewline — meta/compile.go: CompileRegexp), and the forward automaton,
// nfa.ReverseAnchored(n) and nfa.Reverse(n) are dumped with nfadump.go.  The Coq case
// checker (Reverse.v: check_case) requires `reverse_nfa true fwd` and `reverse_nfa false fwd`
// to be EQUAL to the two dumped automata (same states, same ids) and evaluates the
// hypotheses of the reversal theorems on the forward automaton.
//
// Go side, for assertion-free patterns and short haystacks: for every end j the set of
// starts i with a forward accepting path over h[i:j) (a naive simulation of the forward
// automaton through its public accessors) is compared with what the reversed automata compute
// reading h[j-1], h[j-2], ...: (a) a naive simulation of both reversed automata (all matching
// Sparse transitions) — kind reverse-vs-forward, RC nfa.Reverse; (b) the leftmost start
// reported by lazy.DFA.SearchReverse on the ReverseAnchored automaton with BreakAtMatch =
// false (meta/reverse_anchored.go) — kind reverse-dfa-vs-forward when only the DFA differs.
// ---------------------------------------------------------------------------

var rvCurated = []string{
	`[a-z]*foo`, `a*`, `a+`, `(a|b)*c`, `x*$`, `1*A`, `(ab)*`, `(a*)*b`, `a?b?c?`, `(a|ab)(c|bcd)`,
	`foo|bar|bazz`, `[ab][cd]|[ab]x`, `a(b|c|d|e)f`, `(a|b|c|d)+`, `(?:a|b)*(?:c|d)*`, `a{2,4}`, `(ab|a)*b`,
	`[a-c]+[b-d]+`, `é+`, `.a`, `a.`, `.*a`, `a.*b`, `(?s).+`, `(a)(b)?`, `((a)|b)*`, ``, `a||b`,
	`\bfoo`, `foo$`, `^foo`, `(?m)^a$`, `a\b`, `\Bab`, `[a-z]+\.com`, `\w+@\w+`, `(a+)+$`, `a*a*a*`,
}

// rvClosure adds the epsilon closure of id to set (Look states are followed unconditionally:
// the simulation is only used on assertion-free automata).
func rvClosure(n *nfa.NFA, id nfa.StateID, set []bool) {
	if id == nfa.InvalidState || int(id) >= n.States() || set[id] {
		return
	}
	set[id] = true
	s := n.State(id)
	switch s.Kind() {
	case nfa.StateSplit:
		l, r := s.Split()
		rvClosure(n, l, set)
		rvClosure(n, r, set)
	case nfa.StateEpsilon:
		rvClosure(n, s.Epsilon(), set)
	case nfa.StateCapture:
		_, _, nx := s.Capture()
		rvClosure(n, nx, set)
	case nfa.StateLook:
		_, nx := s.Look()
		rvClosure(n, nx, set)
	}
}

// rvStep: all byte transitions (every matching Sparse transition) from set on b.
func rvStep(n *nfa.NFA, set []bool, b byte) []bool {
	next := make([]bool, n.States())
	for id := range set {
		if !set[id] {
			continue
		}
		s := n.State(nfa.StateID(id))
		switch s.Kind() {
		case nfa.StateByteRange:
			lo, hi, nx := s.ByteRange()
			if lo <= b && b <= hi {
				rvClosure(n, nx, next)
			}
		case nfa.StateSparse:
			for _, t := range s.Transitions() {
				if t.Lo <= b && b <= t.Hi {
					rvClosure(n, t.Next, next)
				}
			}
		}
	}
	return next
}

func rvHasMatch(n *nfa.NFA, set []bool) bool {
	for id := range set {
		if set[id] && n.State(nfa.StateID(id)).IsMatch() {
			return true
		}
	}
	return false
}

// rvForward: ok[i][j] = some accepting path from the anchored start over h[i:j).
func rvForward(n *nfa.NFA, h []byte) [][]bool {
	ok := make([][]bool, len(h)+1)
	for i := 0; i <= len(h); i++ {
		ok[i] = make([]bool, len(h)+1)
		set := make([]bool, n.States())
		rvClosure(n, n.StartAnchored(), set)
		for j := i; ; j++ {
			ok[i][j] = rvHasMatch(n, set)
			if j == len(h) {
				break
			}
			set = rvStep(n, set, h[j])
		}
	}
	return ok
}

// rvBackward: ok[i][j] = the reversed automaton, started at j, reaches Match at i.
func rvBackward(rn *nfa.NFA, h []byte) [][]bool {
	ok := make([][]bool, len(h)+1)
	for i := range ok {
		ok[i] = make([]bool, len(h)+1)
	}
	for j := 0; j <= len(h); j++ {
		set := make([]bool, rn.States())
		rvClosure(rn, rn.StartAnchored(), set)
		for i := j; ; i-- {
			ok[i][j] = rvHasMatch(rn, set)
			if i == 0 {
				break
			}
			set = rvStep(rn, set, h[i-1])
		}
	}
	return ok
}

func rvHasLook(n *nfa.NFA) bool {
	for i := 0; i < n.States(); i++ {
		if n.State(nfa.StateID(i)).Kind() == nfa.StateLook {
			return true
		}
	}
	return false
}

func rvMin(ok [][]bool, j int) int {
	for i := 0; i <= j; i++ {
		if ok[i][j] {
			return i
		}
	}
	return -1
}

func cmdReverseCases(args []string) int {
	fs := flag.NewFlagSet("reverse-cases", flag.ExitOnError)
	seed := fs.Uint64("seed", 1, "seed")
	tier := fs.String("tier", "quick", "quick|thorough")
	npat := fs.Int("n", 0, "number of generated patterns examined (0: by tier)")
	out := fs.String("out", "cases.v", "Coq case file")
	statsPath := fs.String("stats", "stats.json", "stats output")
	corpus := fs.String("corpus", "/verif/corpus/patterns_harvested.txt", "pattern corpus")
	maxStates := fs.Int("maxstates", 60, "largest forward automaton used")
	fs.Parse(args)

	st := newStats("C14", *seed)
	np, maxCoq, perPat := 700, 500, 6
	if *tier == "thorough" {
		np, maxCoq, perPat = 4000, 1500, 10
	}
	if *npat > 0 {
		np = *npat
	}
	r := newRng(*seed)
	corp := loadCorpus(*corpus)
	pg := &patGen{r: r.fork(1), corpus: corp}
	distinct := distinctSet{}
	seen := map[string]bool{}

	var coq strings.Builder
	coq.WriteString("From CV Require Import Nfa Reverse.\nFrom Coq Require Import List NArith.\nImport ListNotations.\nOpen Scope N_scope.\n")
	coq.WriteString("(* generated by `harness reverse-cases`: forward automaton of nfa.NewCompiler (meta configuration),\n   nfa.ReverseAnchored(n) and nfa.Reverse(n) dumped through the public accessors *)\n")
	coq.WriteString("Definition cases : list case := [\n")
	ncoq, nlook := 0, 0

	examine := func(idx int, pat, src string) {
		if seen[pat] {
			return
		}
		seen[pat] = true
		re, err := syntax.Parse(pat, syntax.Perl)
		if err != nil {
			st.hist("skip:parse")
			return
		}
		n, err := nfa.NewCompiler(nfa.CompilerConfig{UTF8: true, Anchored: false, DotNewline: false, MaxRecursionDepth: 100}).CompileRegexp(re)
		if err != nil {
			st.hist("skip:real-compiler-error")
			return
		}
		if n.States() > *maxStates {
			st.hist("skip:too-many-states")
			return
		}
		ra, ru := nfa.ReverseAnchored(n), nfa.Reverse(n)
		df, da, du := dumpNFA(n), dumpNFA(ra), dumpNFA(ru)
		if !df.ok || !da.ok || !du.ok {
			st.hist("skip:state-kind-outside-model")
			return
		}
		st.hist("src:" + src)
		if strings.Contains(da.coq, "999999") || strings.Contains(du.coq, "999999") {
			st.hist("reverse:keeps-InvalidState-target")
		}
		look := rvHasLook(n)
		if ncoq < maxCoq {
			if ncoq > 0 {
				coq.WriteString(";\n")
			}
			fmt.Fprintf(&coq, "  (* %d [%s]: %s *)\n  mkCase %d\n    %s\n    %s\n    %s", idx, src, pkSafe(pat), idx, df.coq, da.coq, du.coq)
			ncoq++
			st.hist("coq:emitted")
		} else {
			st.hist("coq:not-emitted-budget")
		}
		if look {
			nlook++
			st.hist("skip-go-compare:look-around")
			return
		}
		// Go-side comparison on short haystacks
		var rdfa *lazy.DFA
		var rcache *lazy.DFACache
		rcfg := lazy.DefaultConfig().WithPrefilter(false)
		rcfg.BreakAtMatch = false
		if dd, err := lazy.CompileWithConfig(ra, rcfg); err == nil {
			rdfa, rcache = dd, dd.NewCache()
		}
		pr := r.fork(uint64(idx) + 7000)
		hg := newHayGen(pr.fork(7), re)
		for k := 0; k < perPat; k++ {
			h := pkHay(pr, hg, re, k+idx, 9)
			key := pat + "\x00" + string(h)
			if _, dup := distinct[key]; dup {
				continue
			}
			distinct.add(key)
			fw := rvForward(n, h)
			for vi, rn := range []*nfa.NFA{ra, ru} {
				name := []string{"nfa.ReverseAnchored", "nfa.Reverse"}[vi]
				bw := rvBackward(rn, h)
				for j := 0; j <= len(h); j++ {
					for i := 0; i <= j; i++ {
						st.Evaluations++
						if fw[i][j] != bw[i][j] {
							st.violate(violation{Kind: "reverse-vs-forward", Case: idx, RC: "nfa.Reverse",
								Detail:   map[string]any{"pattern": pat, "haystack": fmt.Sprintf("%q", h), "i": i, "j": j, "automaton": name},
								Sig:      fmt.Sprintf("reverse %s pat=%q h=%x i=%d j=%d", name, pat, h, i, j),
								Expected: fmt.Sprint(fw[i][j]), Got: fmt.Sprint(bw[i][j])})
						}
					}
				}
				if vi == 0 && rdfa != nil {
					for j := 0; j <= len(h); j++ {
						want, nfaGot := rvMin(fw, j), rvMin(bw, j)
						got := rdfa.SearchReverse(rcache, h, 0, j)
						st.Evaluations++
						if j == 0 {
							// SearchReverse returns -1 for the empty range [0,0) before looking at the
							// automaton (lazy.go: `if end <= start`): an empty match at 0 is not a
							// property of nfa.Reverse — counted, not a violation.
							if got != want {
								st.hist("dfa:empty-range-returns--1-for-nullable-pattern")
							}
							continue
						}
						if got != want && nfaGot == want {
							st.violate(violation{Kind: "reverse-dfa-vs-forward", Case: idx, RC: "lazy.SearchReverse",
								Detail:   map[string]any{"pattern": pat, "haystack": fmt.Sprintf("%q", h), "end": j},
								Sig:      fmt.Sprintf("reverse-dfa pat=%q h=%x j=%d", pat, h, j),
								Expected: fmt.Sprint(want), Got: fmt.Sprint(got)})
						}
					}
				}
			}
		}
	}

	for i, pat := range rvCurated {
		examine(i, pat, "curated-reverse")
	}
	for i := 0; i < np; i++ {
		pat, src := pg.next(i)
		examine(1000+i, pat, src)
	}
	stride := 1
	if len(corp) > 0 {
		stride = len(corp)/300 + 1
	}
	for i := int(*seed % uint64(stride)); i < len(corp); i += stride {
		examine(100000+i, corp[i], "corpus")
	}

	coq.WriteString("\n].\nDefinition M := Eval vm_compute in mismatches cases.\nPrint M.\n")
	coq.WriteString("Definition MK := Eval vm_compute in mismatch_kinds cases.\nPrint MK.\n")
	if err := os.WriteFile(*out, []byte(coq.String()), 0o644); err != nil {
		fatal("write %s: %v", *out, err)
	}
	st.CoqCases = ncoq
	st.Distinct = len(distinct)
	st.Rule = "per pattern (reverse-specific curated list, templates, grammar, corpus sample; forward automaton <= 60 states, compiled with the meta engine's compiler configuration): forward automaton, nfa.ReverseAnchored(n), nfa.Reverse(n) dumped; Coq (Reverse.v check_case): reverse_nfa true/false fwd EQUAL to the dumped automata (nfa_eqb), hypotheses of the reversal theorems evaluated on fwd.  Go, assertion-free patterns, haystacks <= 9 bytes, every 0 <= i <= j <= |h|: forward accepting path over h[i:j) (naive simulation of the forward automaton) == the reversed automaton read backwards from j reaches Match at i (naive simulation, all matching Sparse transitions), for both reversed automata; lazy.DFA.SearchReverse(h, 0, j) on ReverseAnchored with BreakAtMatch=false == leftmost such i"
	st.Extra["patterns_with_look_around_skipped_in_go_comparison"] = nlook
	st.write(*statsPath)
	fmt.Printf("reverse-cases: %d coq cases, %d patterns with look-around (Go comparison skipped), %d evaluations, %d violations\n",
		ncoq, nlook, st.Evaluations, st.TotalViolations)
	return 0
}

func init() { register("reverse-cases", cmdReverseCases) }
