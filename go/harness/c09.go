// Sub-command c09: property C09 -- "Compile accepts stdlib's language and reports
// stdlib's metadata".
//
//	(a) pattern strings (valid, nearly valid, deeply nested, POSIX-only, Perl-only):
//	    Compile / CompilePOSIX / MustCompile / MustCompilePOSIX / CompileWithConfig /
//	    UnmarshalText succeed exactly when package regexp does, and fail with the same text;
//	(b) accepted patterns: String, NumSubexp, SubexpNames, SubexpIndex, LiteralPrefix,
//	    MarshalText/UnmarshalText, Copy+Longest agree with package regexp;
//	(c) QuoteMeta on arbitrary byte strings: equal to regexp.QuoteMeta, and the quoted
//	    pattern finds exactly the string.
//
// The oracle is package regexp (same toolchain).  The QuoteMeta calls are also written
// as a Coq case file for Quote.v.
package main

import (
	"bytes"
	"encoding/hex"
	"flag"
	"fmt"
	"hash/fnv"
	"os"
	"os/exec"
	"reflect"
	"regexp"
	"regexp/syntax"
	"runtime/debug"
	"strings"
	"time"
	"unicode/utf8"

	"github.com/coregx/coregex"
)

func init() { register("c09", c09Main) }

// c09Weight over-approximates the size of the program a pattern expands to (repeats
// multiplied out, classes by their number of ranges).  Patterns above c09MaxWeight are
// compared on the parser level only: package regexp compiles them in well under 50 ms,
// but a Thompson construction over UTF-8 automata may need seconds and gigabytes.
const c09MaxWeight = 40000

func c09Weight(re *syntax.Regexp) int {
	w := 1
	switch re.Op {
	case syntax.OpLiteral:
		w = len(re.Rune)
	case syntax.OpCharClass:
		w = len(re.Rune)/2 + 1
	case syntax.OpAnyChar, syntax.OpAnyCharNotNL:
		w = 8
	}
	sub := 0
	for _, s := range re.Sub {
		sub += c09Weight(s)
		if sub > 1<<40 {
			sub = 1 << 40
		}
	}
	switch re.Op {
	case syntax.OpRepeat:
		n := re.Max
		if n < re.Min {
			n = re.Min
		}
		if n < 1 {
			n = 1
		}
		sub *= n + 1
	}
	w += sub
	if w > 1<<40 {
		w = 1 << 40
	}
	return w
}

type c09Run struct {
	st      *stats
	idx     int // case index of the pattern / string under test
	perKind map[string]int
}

const c09PerKind = 150

func c09Hex(s string) string {
	if len(s) <= 48 {
		return hex.EncodeToString([]byte(s))
	}
	h := fnv.New32a()
	h.Write([]byte(s))
	return fmt.Sprintf("%s..len%d.fnv%08x", hex.EncodeToString([]byte(s[:12])), len(s), h.Sum32())
}

func c09Short(s string) string {
	if len(s) <= 120 {
		return s
	}
	return s[:60] + fmt.Sprintf("...(%d bytes)...", len(s)) + s[len(s)-20:]
}

func (rr *c09Run) viol(kind, pat, want, got string, extra map[string]any) {
	d := map[string]any{"pattern": c09Short(pat), "pattern_hex": c09Hex(pat)}
	for k, v := range extra {
		d[k] = v
	}
	rr.st.hist("violation:" + kind)
	// one root cause (e.g. CompilePOSIX parsing with Perl flags) hits thousands of patterns:
	// keep at most c09PerKind records of a kind so that rare kinds are not crowded out
	if rr.perKind == nil {
		rr.perKind = map[string]int{}
	}
	rr.perKind[kind]++
	_ = c09PerKind // volume is handled by stats.violate (ledger mode)
	rr.st.violate(violation{Kind: kind, Case: rr.idx, Detail: d, Sig: kind + ":" + c09Hex(pat) + ":" + c09Short(got), Expected: c09Short(want), Got: c09Short(got)})
}

// c09Try runs f; a panic is returned as its rendered value.
func c09Try(f func()) (panicked bool, msg string) {
	defer func() {
		if r := recover(); r != nil {
			panicked, msg = true, fmt.Sprint(r)
		}
	}()
	f()
	return false, ""
}

func c09Err(e error) string {
	if e == nil {
		return "<nil>"
	}
	return e.Error()
}

// compareCompile runs one pair of compile functions and reports accept/reject and
// error-text differences.  It returns the two results (nil on failure).
func (rr *c09Run) compareCompile(api, pat string, std func() (*regexp.Regexp, error), cx func() (*coregex.Regex, error)) (*regexp.Regexp, *coregex.Regex) {
	r1, e1 := std()
	var r2 *coregex.Regex
	var e2 error
	if p, msg := c09Try(func() { r2, e2 = cx() }); p {
		rr.viol(api+"-panics", pat, "no panic; std err="+c09Err(e1), "panic: "+msg, nil)
		return r1, nil
	}
	rr.st.Evaluations++
	switch {
	case e1 == nil && e2 != nil:
		rr.viol(api+"-rejects-valid", pat, "<nil>", e2.Error(), nil)
	case e1 != nil && e2 == nil:
		rr.viol(api+"-accepts-invalid", pat, e1.Error(), "<nil>", nil)
	case e1 != nil && e2 != nil && e1.Error() != e2.Error():
		rr.viol(api+"-errtext", pat, e1.Error(), e2.Error(), nil)
	}
	if e1 != nil {
		r1 = nil
	}
	if e2 != nil {
		r2 = nil
	}
	return r1, r2
}

func (rr *c09Run) comparePanic(api, pat string, std func(), cx func()) {
	p1, m1 := c09Try(std)
	p2, m2 := c09Try(cx)
	rr.st.Evaluations++
	if p1 != p2 || m1 != m2 {
		rr.viol(api+"-panic-message", pat, fmt.Sprintf("panic=%v %s", p1, m1), fmt.Sprintf("panic=%v %s", p2, m2), nil)
	}
}

// metadata compares the accessors of two compiled values (kind prefix says which
// constructor produced them).
func (rr *c09Run) metadata(pfx, pat string, r1 *regexp.Regexp, r2 *coregex.Regex) {
	rr.st.Evaluations++
	if r1.String() != r2.String() {
		rr.viol(pfx+"String", pat, r1.String(), r2.String(), nil)
	}
	if r1.NumSubexp() != r2.NumSubexp() {
		rr.viol(pfx+"NumSubexp", pat, fmt.Sprint(r1.NumSubexp()), fmt.Sprint(r2.NumSubexp()), nil)
	}
	n1, n2 := r1.SubexpNames(), r2.SubexpNames()
	if !reflect.DeepEqual(n1, n2) {
		rr.viol(pfx+"SubexpNames", pat, fmt.Sprintf("%q", n1), fmt.Sprintf("%q", n2), nil)
	}
	names := append([]string{"", "nosuchname", "n"}, n1...)
	for _, nm := range names {
		if a, b := r1.SubexpIndex(nm), r2.SubexpIndex(nm); a != b {
			rr.viol(pfx+"SubexpIndex", pat, fmt.Sprint(a), fmt.Sprint(b), map[string]any{"name": nm})
		}
	}
	a, ac := r1.LiteralPrefix()
	b, bc := r2.LiteralPrefix()
	if a != b || ac != bc {
		rr.viol(pfx+"LiteralPrefix", pat, fmt.Sprintf("(%q,%v)", a, ac), fmt.Sprintf("(%q,%v)", b, bc), nil)
	}
}

// unmarshalIntoUsed: UnmarshalText into a receiver that already holds another expression in
// another mode (POSIX / Longest) must yield a value indistinguishable from Compile(pat)
// (regexp: `*re = *newRE`).  Compared with coregex's own fresh Compile(pat), so that other
// findings do not leak into this relation.
func (rr *c09Run) unmarshalIntoUsed(r *rng, pat string, fresh *coregex.Regex) {
	mk := []struct {
		name string
		f    func() *coregex.Regex
	}{
		{"posix", func() *coregex.Regex { x, _ := coregex.CompilePOSIX("a|ab"); return x }},
		{"longest", func() *coregex.Regex { x, _ := coregex.Compile("a|ab"); x.Longest(); x.MatchString("ab"); return x }},
		{"plain-used", func() *coregex.Regex { x, _ := coregex.Compile("(x+)y"); x.FindStringSubmatch("xxy"); return x }},
	}
	hays := c09Hays(r, pat)
	hays = append(hays, []byte("ab"), []byte("xaby"))
	for _, m := range mk {
		recv := m.f()
		if recv == nil {
			continue
		}
		var err error
		if p, msg := c09Try(func() { err = recv.UnmarshalText([]byte(pat)) }); p || err != nil {
			rr.viol("UnmarshalText-into-"+m.name, pat, "<nil>", fmt.Sprintf("panic=%v %s err=%v", p, msg, err), nil)
			continue
		}
		rr.st.Evaluations++
		cmp := func(what, a, b string) {
			if a != b {
				rr.viol("UnmarshalText-into-"+m.name+":"+what, pat, a, b, nil)
			}
		}
		cmp("String", fresh.String(), recv.String())
		cmp("NumSubexp", fmt.Sprint(fresh.NumSubexp()), fmt.Sprint(recv.NumSubexp()))
		a, ac := fresh.LiteralPrefix()
		b, bc := recv.LiteralPrefix()
		cmp("LiteralPrefix", fmt.Sprintf("(%q,%v)", a, ac), fmt.Sprintf("(%q,%v)", b, bc))
		var cp *coregex.Regex
		if p, _ := c09Try(func() { cp = recv.Copy() }); p || cp == nil {
			rr.viol("UnmarshalText-into-"+m.name+":Copy", pat, "non-nil copy", "nil or panic", nil)
		}
		fc := fresh.Copy()
		for _, h := range hays {
			cmp("FindIndex", fmtInts(fresh.FindIndex(h)), fmtInts(recv.FindIndex(h)))
			cmp("FindSubmatchIndex", fmtInts(fresh.FindSubmatchIndex(h)), fmtInts(recv.FindSubmatchIndex(h)))
			if cp != nil && fc != nil {
				cmp("Copy.FindIndex", fmtInts(fc.FindIndex(h)), fmtInts(cp.FindIndex(h)))
				cmp("Copy.FindAllIndex", fmtIntss(fc.FindAllIndex(h, -1)), fmtIntss(cp.FindAllIndex(h, -1)))
			}
		}
	}
}

func c09Hays(r *rng, pat string) [][]byte {
	re, err := syntax.Parse(pat, syntax.Perl)
	if err != nil {
		re, err = syntax.Parse(pat, syntax.POSIX)
	}
	if err != nil {
		return [][]byte{{}, []byte("ab"), []byte("xyz abc 123")}
	}
	hg := newHayGen(r, re)
	out := [][]byte{hg.next(2), hg.next(1), hg.next(4)}
	for i := range out {
		if len(out[i]) > 400 {
			out[i] = out[i][:400]
		}
	}
	return out
}

// roundtrips: MarshalText/UnmarshalText and Copy/Longest on an accepted pattern.
func (rr *c09Run) roundtrips(r *rng, pat string, r1 *regexp.Regexp, r2 *coregex.Regex) {
	rr.unmarshalIntoUsed(r, pat, r2)
	hays := c09Hays(r, pat)
	before := make([]string, len(hays))
	for i, h := range hays {
		before[i] = fmtInts(r2.FindIndex(h))
	}

	// MarshalText -> UnmarshalText into a zero value
	rr.st.Evaluations++
	t1, _ := r1.MarshalText()
	t2, err2 := r2.MarshalText()
	if err2 != nil || !bytes.Equal(t1, t2) {
		rr.viol("MarshalText", pat, string(t1), fmt.Sprintf("%q err=%v", t2, err2), nil)
	}
	var z coregex.Regex
	if p, msg := c09Try(func() { err2 = z.UnmarshalText(t2) }); p || err2 != nil {
		rr.viol("UnmarshalText-roundtrip", pat, "<nil>", fmt.Sprintf("panic=%v %s err=%v", p, msg, err2), nil)
	} else {
		if z.String() != pat {
			rr.viol("UnmarshalText-String", pat, pat, z.String(), nil)
		}
		for i, h := range hays {
			if got := fmtInts(z.FindIndex(h)); got != before[i] {
				rr.viol("UnmarshalText-match", pat, before[i], got, map[string]any{"haystack": string(h)})
			}
		}
		if z.NumSubexp() != r2.NumSubexp() {
			rr.viol("UnmarshalText-NumSubexp", pat, fmt.Sprint(r2.NumSubexp()), fmt.Sprint(z.NumSubexp()), nil)
		}
	}

	// Copy, then Longest on the copy: the original keeps its behaviour, the copy behaves
	// like a stdlib copy with Longest.
	rr.st.Evaluations++
	var c *coregex.Regex
	if p, msg := c09Try(func() { c = r2.Copy() }); p || c == nil {
		rr.viol("Copy-nil", pat, "a copy", fmt.Sprintf("panic=%v %s nil=%v", p, msg, c == nil), nil)
		return
	}
	if c == r2 {
		rr.viol("Copy-aliases", pat, "a new object", "the same pointer", nil)
	}
	if c.String() != pat {
		rr.viol("Copy-String", pat, pat, c.String(), nil)
	}
	for i, h := range hays {
		if got := fmtInts(c.FindIndex(h)); got != before[i] {
			rr.viol("Copy-match", pat, before[i], got, map[string]any{"haystack": string(h)})
		}
	}
	c.Longest()
	for i, h := range hays {
		if got := fmtInts(r2.FindIndex(h)); got != before[i] {
			rr.viol("Copy-Longest-leaks-into-original", pat, before[i], got, map[string]any{"haystack": string(h)})
		}
	}
}

// longestPairs: (pattern, haystack) where leftmost-first and leftmost-longest differ.
var c09LongestPairs = [][2]string{
	{`a|ab`, "ab"}, {`(a|ab)(c|bcd)`, "abcd"}, {`a*?`, "aaa"}, {`(a|ab|abc)`, "xabcx"}, {`a+?`, "aaa"},
	{`foo|foobar`, "foobar"}, {`(?:a|ab)(?:c|bcd)(?:d*)`, "abcd"}, {`x*?y??`, "xxy"},
}

func (rr *c09Run) copyLongest(pat, hay string) {
	rr.st.Evaluations++
	s, err1 := regexp.Compile(pat)
	x, err2 := coregex.Compile(pat)
	if err1 != nil || err2 != nil {
		return
	}
	h := []byte(hay)
	first := fmtInts(s.FindIndex(h))
	sc := s.Copy()
	sc.Longest()
	long := fmtInts(sc.FindIndex(h))
	xc := x.Copy()
	if xc == nil {
		rr.viol("Copy-nil", pat, "a copy", "nil", nil)
		return
	}
	xc.Longest()
	if got := fmtInts(x.FindIndex(h)); got != first {
		rr.viol("Copy-Longest-original", pat, first, got, map[string]any{"haystack": hay})
	}
	if got := fmtInts(xc.FindIndex(h)); got != long {
		rr.viol("Copy-Longest-copy", pat, long, got, map[string]any{"haystack": hay})
	}
	// a copy of a Longest value stays Longest, and a copy taken before Longest does not change
	xcc := xc.Copy()
	if xcc == nil {
		rr.viol("Copy-nil", pat, "a copy of a Longest value", "nil", nil)
		return
	}
	if got := fmtInts(xcc.FindIndex(h)); got != long {
		rr.viol("Copy-of-Longest", pat, long, got, map[string]any{"haystack": hay})
	}
	// CompilePOSIX value and its copy
	sp, e1 := regexp.CompilePOSIX(pat)
	xp, e2 := coregex.CompilePOSIX(pat)
	if e1 == nil && e2 == nil {
		want := fmtInts(sp.FindIndex(h))
		if got := fmtInts(xp.FindIndex(h)); got != want {
			rr.viol("CompilePOSIX-match", pat, want, got, map[string]any{"haystack": hay})
		}
		if cp := xp.Copy(); cp == nil {
			rr.viol("Copy-nil", pat, "a copy of a POSIX value", "nil", nil)
		} else if got := fmtInts(cp.FindIndex(h)); got != want {
			rr.viol("Copy-of-POSIX", pat, want, got, map[string]any{"haystack": hay})
		}
	}
}

// checkPattern is part (a)+(b) for one pattern string.
func (rr *c09Run) checkPattern(r *rng, pat, src string) {
	st := rr.st
	st.hist("src:" + src)
	heavy := false
	if re, err := syntax.Parse(pat, syntax.Perl); err == nil {
		if c09Weight(re) > c09MaxWeight {
			heavy = true
		}
	}
	if !heavy {
		if re, err := syntax.Parse(pat, syntax.POSIX); err == nil && c09Weight(re) > c09MaxWeight {
			heavy = true
		}
	}
	if len(pat) > 6000 {
		heavy = true
	}
	if heavy {
		st.hist("skip:heavy")
		return
	}

	t0 := time.Now()
	r1, r2 := rr.compareCompile("Compile", pat,
		func() (*regexp.Regexp, error) { return regexp.Compile(pat) },
		func() (*coregex.Regex, error) { return coregex.Compile(pat) })
	if d := time.Since(t0); d > 500*time.Millisecond {
		st.Notes = appendNote(st.Notes, fmt.Sprintf("slow Compile pair (%v) for %q", d, c09Short(pat)))
	}
	p1, p2 := rr.compareCompile("CompilePOSIX", pat,
		func() (*regexp.Regexp, error) { return regexp.CompilePOSIX(pat) },
		func() (*coregex.Regex, error) { return coregex.CompilePOSIX(pat) })
	_, c2 := rr.compareCompile("CompileWithConfig", pat,
		func() (*regexp.Regexp, error) { return regexp.Compile(pat) },
		func() (*coregex.Regex, error) { return coregex.CompileWithConfig(pat, coregex.DefaultConfig()) })

	switch {
	case r1 != nil && p1 != nil:
		st.hist("std:perl+posix")
	case r1 != nil:
		st.hist("std:perl-only")
	case p1 != nil:
		st.hist("std:posix-only")
	default:
		st.hist("std:invalid")
	}

	// Must* : panic value.  Done for every rejected pattern and a sample of accepted ones.
	if r1 == nil || r2 == nil || r.intn(8) == 0 {
		rr.comparePanic("MustCompile", pat, func() { regexp.MustCompile(pat) }, func() { coregex.MustCompile(pat) })
	}
	if p1 == nil || p2 == nil || r.intn(8) == 0 {
		rr.comparePanic("MustCompilePOSIX", pat, func() { regexp.MustCompilePOSIX(pat) }, func() { coregex.MustCompilePOSIX(pat) })
	}
	// UnmarshalText of a rejected text: same error, receiver untouched
	if r1 == nil {
		var zs regexp.Regexp
		var zx coregex.Regex
		e1 := zs.UnmarshalText([]byte(pat))
		var e2 error
		if p, msg := c09Try(func() { e2 = zx.UnmarshalText([]byte(pat)) }); p {
			rr.viol("UnmarshalText-panics", pat, c09Err(e1), msg, nil)
		} else if c09Err(e1) != c09Err(e2) {
			rr.viol("UnmarshalText-errtext", pat, c09Err(e1), c09Err(e2), nil)
		}
		st.Evaluations++
	}

	if r1 != nil && r2 != nil {
		st.hist("accepted-both")
		rr.metadata("", pat, r1, r2)
		if c2 != nil {
			if c2.NumSubexp() != r2.NumSubexp() || !reflect.DeepEqual(c2.SubexpNames(), r2.SubexpNames()) {
				rr.viol("CompileWithConfig-metadata", pat, fmt.Sprintf("%q", r2.SubexpNames()), fmt.Sprintf("%q", c2.SubexpNames()), nil)
			}
		}
		rr.roundtrips(r, pat, r1, r2)
	}
	if p1 != nil && p2 != nil {
		rr.metadata("POSIX-", pat, p1, p2)
	}
}

// ---------------------------------------------------------------------------
// Crash pre-screen.  A stack overflow or an out-of-memory inside coregex.Compile is a
// fatal error that recover() cannot stop.  The pattern list is therefore first compiled
// in a child process (this binary, flag -screen) that writes the index it is working on
// to a progress file; when the child dies the parent marks that index as fatal and
// restarts the child behind it.
// ---------------------------------------------------------------------------

func c09Heavy(pat string) bool {
	if len(pat) > 6000 {
		return true
	}
	if re, err := syntax.Parse(pat, syntax.Perl); err == nil && c09Weight(re) > c09MaxWeight {
		return true
	}
	if re, err := syntax.Parse(pat, syntax.POSIX); err == nil && c09Weight(re) > c09MaxWeight {
		return true
	}
	return false
}

func c09ScreenChild(listPath string, from int) int {
	// a runaway recursion is detected at 32 MB of stack instead of the default 1 GB
	// (which takes ~15 s to fill); legitimate compilation needs far less
	debug.SetMaxStack(32 << 20)
	data, err := os.ReadFile(listPath)
	if err != nil {
		fatal("screen: %v", err)
	}
	lines := strings.Split(strings.TrimSuffix(string(data), "\n"), "\n")
	prog, err := os.OpenFile(listPath+".progress", os.O_CREATE|os.O_WRONLY|os.O_TRUNC, 0o644)
	if err != nil {
		fatal("screen: %v", err)
	}
	defer prog.Close()
	for i := from; i < len(lines); i++ {
		b, err := hex.DecodeString(lines[i])
		if err != nil {
			continue
		}
		pat := string(b)
		if c09Heavy(pat) {
			continue
		}
		fmt.Fprintf(prog, "%d\n", i)
		c09Try(func() { coregex.Compile(pat) })
		c09Try(func() { coregex.CompilePOSIX(pat) })
	}
	fmt.Fprintf(prog, "done\n")
	return 0
}

// c09Screen returns the indices of the patterns on which the child process died, with the
// first line of the child's fatal message.
func c09Screen(pats []string) map[int]string {
	out := map[int]string{}
	exe, err := os.Executable()
	if err != nil {
		return out
	}
	var sb strings.Builder
	for _, p := range pats {
		sb.WriteString(hex.EncodeToString([]byte(p)))
		sb.WriteByte('\n')
	}
	list := "c09_screen.txt"
	if err := os.WriteFile(list, []byte(sb.String()), 0o644); err != nil {
		return out
	}
	defer os.Remove(list)
	defer os.Remove(list + ".progress")
	from := 0
	for rounds := 0; rounds < 64 && from < len(pats); rounds++ {
		cmd := exec.Command(exe, "c09", "-screen", list, "-screen-from", fmt.Sprint(from))
		var stderr bytes.Buffer
		cmd.Stderr = &stderr
		cmd.Stdout = nil
		runErr := cmd.Run()
		data, _ := os.ReadFile(list + ".progress")
		lines := strings.Split(strings.TrimSpace(string(data)), "\n")
		last := lines[len(lines)-1]
		if runErr == nil && last == "done" {
			break
		}
		var idx int
		if _, err := fmt.Sscanf(last, "%d", &idx); err != nil {
			break // the child died before it started: give up on screening
		}
		msg := "child process died"
		for _, l := range strings.Split(stderr.String(), "\n") {
			if strings.HasPrefix(l, "fatal error:") || strings.HasPrefix(l, "runtime: goroutine stack exceeds") {
				msg = l
				if strings.HasPrefix(l, "fatal error:") {
					break
				}
			}
		}
		out[idx] = msg
		from = idx + 1
	}
	return out
}

// ---------------------------------------------------------------------------
// Pattern sources
// ---------------------------------------------------------------------------

// fixed list: nearly valid patterns, POSIX-only and Perl-only syntax, metadata shapes.
var c09Fixed = []string{
	// bad repeats
	`a{2,1}`, `a**`, `a*+`, `a+*`, `a??+`, `a***`, `x{1001}`, `x{1000}`, `x{0,1000}`, `x{1000,}`, `x{1001,}`, `(a{1000}){1000}`, `(a{100}){10}`, `(a{100}){11}`,
	`((a{10}){10}){10}`, `((a{10}){10}){11}`, `a{,2}`, `a{2`, `a{2,`, `a{`, `a{}`, `a{-1}`, `a{1,2,3}`, `a{1}{2}`, `a{1}*`, `*`, `+a`, `?`, `|*`, `(*)`, `(?:*)`, `^*`, `$*`, `\b*`, `\b+`, `(?i)*`,
	`{`, `}`, `a{x}`, `a{1x}`, `{1}`, `a|*`, `(|*)`, `()*`, `()+`, `(){2}`, `a{0}`, `a{0,0}`, `(a*){1000}`, `(a?){1000}`, `(?:a{2}){500}`, `(?:a{2}){501}`,
	// parens / brackets
	`(`, `)`, `a)`, `(a`, `((a)`, `(a))`, `(?:`, `(?:a`, `(?`, `(?P`, `(?P<`, `(?P<n`, `(?P<n>`, `(?P<n>a`, `[`, `]`, `[a`, `[a-`, `[a-]`, `[]`, `[]a`, `[]a]`, `[^]`, `[^]a]`, `[^`, `[z-a]`, `[a-a]`, `[\d-z]`, `[a-\d]`,
	`[[:alpha:]`, `[[:foo:]]`, `[[:alpha:]-z]`, `[[:^alpha:]]`, `[[=a=]]`, `[[.a.]]`, `[a`, `[\`, `[a\`, `[\8]`, `[\pX]`, `[\p{Foo}]`, `[\P{^Greek}]`, `[^\x00-\x{10FFFF}]`, `a[^\x00-\x{10FFFF}]b`, `a|[^\x00-\x{10FFFF}]`, `[^\x00-\x{10FFFF}]*`, `([^\x00-\x{10FFFF}])?x`,
	`[^\D\d]`, `[^\W\w]a`, `[^\S\s]|b`,
	// escapes
	`\8`, `\9`, `\1`, `\0`, `\00`, `\08`, `\pX`, `\p`, `\p{`, `\p{Foo}`, `\p{Greek`, `\P{^Greek}`, `\pN`, `\PN`, `\p{^N}`, `\`, `a\`, `\\`, `\\\`, `\c`, `\cA`, `\e`, `\_`, `\-`, `\ `, `\!`, `\/`, `\#`, `\~`, `\x`, `\x1`, `\x{`, `\x{1`, `\x{110000}`, `\x{10FFFF}`, `\x{FFFFFFFFF}`, `\xg`, `\Q`, `\Qab`, `\Qa\Eb`, `\Qa\\Eb`, `\E`, `\Q\E`, `\Q\E*`, `\Qa\E*`, `\C`, `\G`, `\X`, `\R`, `\h`, `\H`, `\v`, `\V`, `\K`, `\k<n>`, `\g{1}`, `\N`, `A`, `\U00000041`, `\o{101}`, `\z`, `\Z`, `\A`, `\a`, `\f`, `\t`, `\n`, `\r`, `\v`, `\123`, `\1234`, `\777`,
	// invalid UTF-8 in the pattern
	"a\xffb", "\xff", "[\xff]", "[a-\xff]", "\\\xff", "(?P<\xff>a)", "\xc3", "\xe4\xb8", "\xed\xa0\x80", "\xf4\x90\x80\x80", "\xc0\x80", "a\x80", "\xef\xbf\xbd", "`", "a`b", "`\xff", "a\x00b", "\x00", "a\nb", "a\tb", "\x7f", "a\rb",
	// named groups
	`(?P<>a)`, `(?P<n>a)(?P<n>b)`, `(?<n>a)`, `(?<n>a)(?<n>b)`, `(?<>a)`, `(?P<n>a)(?<n>b)`, `(?P<1>a)`, `(?P<n1>a)`, `(?P<_>a)`, `(?P<n-1>a)`, `(?P<n m>a)`, `(?P<é>a)`, `(?P<n>`, `(?P=n)`, `(?P>n)`, `(?'n'a)`, `(?P<n>a)|(?P<m>b)`, `(?P<a>(?P<b>(?P<c>x)))`, `((?P<in>a)|(?P<out>b))*`, `(?P<x>a)(b)(?P<y>c)`, `(a)(?P<x>b)`, `(?P<nosuchname>a)`, `(?P<n>a)(?P<nn>b)(?P<N>c)`,
	`(?P<first>\w+) (?P<last>\w+)`, `(?P<year>\d{4})-(?P<month>\d{2})-(?P<day>\d{2})`, `(a)(b)(c)(d)(e)(f)(g)(h)(i)(j)(k)`, `(?:a)(b)(?:c)(d)`, `(?i:(a))`, `(?i)(?P<n>a)`, `((((((((((a))))))))))`, `(a(b(c)))(d)`, `(a)|(b)|(c)`, `(a|(b|(c)))`, `(a){2}`, `(a){2,3}`, `((a){2}){2}`, `(a)*`, `(a)+?`, `(a)??`, `(?:(a))+`,
	// flags
	`(?z)`, `(?i`, `(?i:`, `(?i:a`, `(?-)`, `(?-i-s)`, `(?i-)`, `(?i--s)a`, `(?)`, `(?:)`, `(?i)`, `(?i:)`, `(?is-mU:a)`, `(?U)a+?`, `(?mi)^a$`, `(?i)(?-i)a`, `(?#comment)a`, `(?=a)`, `(?!a)`, `(?<=a)`, `(?<!a)`, `(?>a)`, `(?|a)`, `(?x)a b`, `(?P)`, `(?ii)a`, `(?i-i)a`, `(?s-s:.)`, `(?u)a`, `(?a)a`, `(?L)a`,
	// POSIX-only vs Perl-only
	`\d+`, `\w`, `\s`, `\D`, `\W`, `\S`, `\pL`, `\PL`, `\b`, `\B`, `\A`, `\z`, `\C`, `\Qa\E`, `(?i)a`, `(?:a)`, `(?P<n>a)`, `a+?`, `a*?`, `a??`, `a{1,2}?`, `a**`, `a++`, `a*+`, `a?*`, `a{2}{3}`, `a{2}*`, `a*{2}`, `[[:alpha:]]`, `[[:word:]]`, `[\d]`, `[\w]`, `[\pL]`, `[\s]`, `\.`, `\$`, `\n`, `\x41`, `\101`, `.`, `^a$`, `a|b`, `(a)`, `()`, `a||b`, `|`, `||`, `(|)`, `a|`, `|a`, `^*a`, `a$b`, `a^b`, `$^`, `\pN+`, `[^\n]`, `[^a]`,
	// factored alternation with a repeat after a loop (fatal stack overflow in literal.cloneRegexp)
	`a*(?:bs{2}c|bd)`, `a+(?:bs{1,3}c|bd)`, `\S*(?:as{1,3}b|ac)`, `(m?)^(?:GET|POST)\s+\S*(?:pas{1,3}sword|passwd|pwd|pass)\S*`,
	// LiteralPrefix shapes
	`a{2}b`, `^abc`, `(?i)abc`, `abc+`, `ab|ac`, `abc`, `^abc$`, `(abc)`, `a(b)c`, ``, `^`, `$`, `a.c`, `\Aabc`, `\Aabc\z`, `(?m)^abc`, `(?m)abc$`, `abc$`, `a|b`, `a(?:)b`, `[a]bc`, `é+`, `é`, `日本語`, `日本語+`, `\x{fffd}a`, `a\x{fffd}`, `(a)|b`, `a*`, `a?`, `a+`, `a+?`, `aa*`, `a{3}`, `a{3,}`, `a{2,3}`, `(?s).`, `x*yz`, `\bfoo`, `foo\b`, `foo\Bbar`, `foo(?:bar|baz)`, `foo(bar)?`, `foo|foo`, `foo|foobar`, `(?:foo)(?:bar)`, `(foo)(bar)`, `((foo))bar`, `(foo|)bar`, `(?i)1234`, `(?i)12a`, `12(?i)a`, `(?i:12)34`, `a(?i:b)`, `ab[c]`, `ab[cd]`, `ab[c-c]`, `ab\.`, `ab\Qc.d\E`, `^`, `^$`, `^a`, `^a$`, `^(a)$`, `^(?:a|b)$`, `^ab|cd$`, `^a.*b$`, `^\x{fffd}$`, `^(?i)a$`, `^a+$`, `^a{2}$`, `^é$`, `(?m)^a$`, `^^a`, `^a$$`, `\A\Aa`, `^(abc)`, `^(abc)$`, `^abc(d|e)$`, `^abc(?:d|e)`, `^abcd|^abce`, `^a?b$`, `^[a]$`, `^a|^b`, `^(?:a|ab)c$`, `^x(a|ab)c$`,
}

func c09Nested() []string {
	var out []string
	for _, n := range []int{50, 98, 99, 100, 101, 150, 500, 998, 999, 1000, 1001} {
		out = append(out,
			strings.Repeat("(", n)+"a"+strings.Repeat(")", n),
			strings.Repeat("(?:", n)+"a"+strings.Repeat(")", n),
			strings.Repeat("(?:", n)+"a"+strings.Repeat(")*", n),
			strings.Repeat("(?:", n)+"a"+strings.Repeat(")+", n),
			strings.Repeat("(?:", n)+"a"+strings.Repeat("|b)", n),
			strings.Repeat("(?:", n)+"a"+strings.Repeat("b)", n),
			strings.Repeat("(?:", n)+"a"+strings.Repeat("){1,2}", n/50+1),
			strings.Repeat("(", n)+"a"+strings.Repeat(")?", n),
			strings.Repeat("(?i:", n)+"a"+strings.Repeat(")", n),
			strings.Repeat("(", n)+strings.Repeat(")", n),
			strings.Repeat("(a", n)+strings.Repeat(")", n),
			strings.Repeat("(?P<n>", 1)+strings.Repeat("(", n)+"a"+strings.Repeat(")", n+1),
			strings.Repeat("a|", n)+"a",
			strings.Repeat("(a)", n),
			strings.Repeat("[", n)+"a"+strings.Repeat("]", n),
		)
	}
	return out
}

var c09Meta = []string{`\`, `.`, `+`, `*`, `?`, `(`, `)`, `|`, `[`, `]`, `{`, `}`, `^`, `$`, `(?:`, `(?i)`, `(?P<n>`, `\d`, `\pL`, `\b`, `{2}`, `{2,}`, `{1,3}`, `-`, `:`, `[:alpha:]`, `\Q`, `\E`, `?`, `,`, `<`, `>`, `=`, `!`, `P`, "\xff", "\x00", "é"}

// c09Mutate makes a nearly valid pattern out of a valid one.
func c09Mutate(r *rng, p string) string {
	b := []byte(p)
	isMeta := func(c byte) bool { return strings.IndexByte(`\.+*?()|[]{}^$-,:<>`, c) >= 0 }
	metaPos := func() int {
		var pos []int
		for i, c := range b {
			if isMeta(c) {
				pos = append(pos, i)
			}
		}
		if len(pos) == 0 {
			return -1
		}
		return pos[r.intn(len(pos))]
	}
	switch r.intn(9) {
	case 0: // delete a metacharacter
		if k := metaPos(); k >= 0 {
			return string(append(b[:k:k], b[k+1:]...))
		}
	case 1: // duplicate a metacharacter
		if k := metaPos(); k >= 0 {
			return string(b[:k+1]) + string(b[k:])
		}
	case 2: // insert a metacharacter / token anywhere
		k := r.intn(len(b) + 1)
		return string(b[:k]) + r.pick(c09Meta) + string(b[k:])
	case 3: // delete any byte
		if len(b) > 0 {
			k := r.intn(len(b))
			return string(append(b[:k:k], b[k+1:]...))
		}
	case 4: // truncate
		if len(b) > 0 {
			return string(b[:r.intn(len(b))])
		}
	case 5: // swap two adjacent bytes
		if len(b) > 1 {
			k := r.intn(len(b) - 1)
			b[k], b[k+1] = b[k+1], b[k]
			return string(b)
		}
	case 6: // wrap in an unbalanced or odd group
		return r.pick([]string{"(", "(?:", "(?i:", "[", "(?P<g>", "(?<g>", ")", "]"}) + p + r.pick([]string{"", ")", "))", "]", "){2}", ")*?", "\\"})
	case 7: // replace a byte by a metacharacter
		if len(b) > 0 {
			k := r.intn(len(b))
			return string(b[:k]) + r.pick(c09Meta) + string(b[k+1:])
		}
	default: // append a quantifier or an odd tail
		return p + r.pick([]string{"*", "+", "?", "**", "+?", "{2}", "{2,1}", "{1001}", "{", "\\", "|", "(", "[", "$", "^", "{,3}", "{3,}?", "*{2}"})
	}
	return p + "("
}

// ---------------------------------------------------------------------------
// QuoteMeta
// ---------------------------------------------------------------------------

const c09Special = `\.+*?()|[]{}^$`

func c09QuoteInputs(root *rng, n int) []string {
	var out []string
	for b := 0; b < 256; b++ {
		out = append(out, string([]byte{byte(b)}))
	}
	out = append(out, "", c09Special, c09Special+c09Special, "hello.world", "a+b", "[a-z]+", `\\`, `\Q`, `\E`, `\Qa\E`, "1+1=2?", "$^", "^$", "(?i)a", "a|b", "{2,3}", "日本語.", "é*", "😀+😀", "a\x00.", "\xff.", ".\xff", "\xc3(", "\xe4\xb8|", "a\nb", "a\\\nb", "-", "a-z", "&", "~", "#", " ", "a b", "\t", "`", "'", `"`, "/", ":", "<>", "=", "!", "@", "%", ",", ";", "_")
	for i := 0; i < len(c09Special); i++ {
		for j := 0; j < len(c09Special); j++ {
			out = append(out, string([]byte{c09Special[i], c09Special[j]}), string([]byte{'a', c09Special[i], 'b', c09Special[j]}))
		}
	}
	alph := []string{"a", "b", "Z", "0", " ", "-", "_", "é", "я", "世", "😀", "\n", "\x00", "\x7f"}
	bad := []string{"\xff", "\xc3", "\xe4\xb8", "\x80", "\xf0\x9f\x98", "\xed\xa0\x80", "\xc0\x80", "\xfe"}
	for i := 0; len(out) < n; i++ {
		r := root.fork(uint64(i) + 7_000_000)
		ln := r.intn(24)
		if r.intn(10) == 0 {
			ln = 24 + r.intn(200)
		}
		var sb strings.Builder
		mode := r.intn(5)
		for k := 0; k < ln; k++ {
			switch x := r.intn(100); {
			case mode == 0 || x < 40:
				sb.WriteByte(c09Special[r.intn(len(c09Special))])
			case mode == 1 && x < 55:
				sb.WriteString(r.pick(bad))
			case mode == 2 && x < 70:
				sb.WriteByte(byte(r.intn(256)))
			default:
				sb.WriteString(r.pick(alph))
			}
		}
		out = append(out, sb.String())
	}
	return out
}

func (rr *c09Run) checkQuote(r *rng, s string) (q string) {
	st := rr.st
	st.Evaluations++
	want := regexp.QuoteMeta(s)
	if p, msg := c09Try(func() { q = coregex.QuoteMeta(s) }); p {
		rr.viol("QuoteMeta-panics", s, want, msg, nil)
		return want
	}
	if q != want {
		rr.viol("QuoteMeta-eq", s, want, q, nil)
	}
	if q == s {
		st.hist("quote:unchanged")
	} else {
		st.hist("quote:escaped")
	}
	// the quoted pattern compiles exactly when stdlib compiles it (invalid UTF-8 is a parse error)
	s1, e1 := regexp.Compile(want)
	var x1 *coregex.Regex
	var e2 error
	if p, msg := c09Try(func() { x1, e2 = coregex.Compile(q) }); p {
		rr.viol("QuoteMeta-compile-panics", s, c09Err(e1), msg, nil)
		return q
	}
	if c09Err(e1) != c09Err(e2) {
		rr.viol("QuoteMeta-compile", s, c09Err(e1), c09Err(e2), nil)
	}
	if e1 != nil || e2 != nil {
		st.hist("quote:not-compilable(invalid UTF-8)")
		return q
	}
	_ = s1
	// noise + s + noise: the first occurrence of s, exactly
	noiseAlph := []string{"a", "b", ".", "\\", "(", " ", "é", "x", "\n", "*", "["}
	mk := func(n int) []byte {
		var o []byte
		for k := 0; k < n; k++ {
			o = append(o, r.pick(noiseAlph)...)
		}
		return o
	}
	h := concatBytes(mk(r.intn(12)), []byte(s), mk(r.intn(12)))
	i := bytes.Index(h, []byte(s))
	wantIdx := fmtInts([]int{i, i + len(s)})
	var got string
	if p, msg := c09Try(func() { got = fmtInts(x1.FindIndex(h)) }); p {
		got = "panic: " + msg
	}
	if got != wantIdx {
		rr.viol("QuoteMeta-find", s, wantIdx, got, map[string]any{"haystack": string(h), "haystack_hex": hex.EncodeToString(h)})
	}
	if lp, complete := x1.LiteralPrefix(); lp != s || !complete {
		st.hist("quote:literalprefix-differs")
		if sl, sc := s1.LiteralPrefix(); sl != lp || sc != complete {
			rr.viol("QuoteMeta-LiteralPrefix", s, fmt.Sprintf("(%q,%v)", sl, sc), fmt.Sprintf("(%q,%v)", lp, complete), nil)
		}
	}
	// ^(?:q)$ matches s and not s+"x"
	var xa *coregex.Regex
	if p, msg := c09Try(func() { xa, e2 = coregex.Compile(`^(?:` + q + `)$`) }); p || e2 != nil {
		rr.viol("QuoteMeta-anchored-compile", s, "<nil>", fmt.Sprintf("%s %v", msg, e2), nil)
		return q
	}
	var m1, m2, m3 bool
	if p, msg := c09Try(func() { m1, m2, m3 = xa.MatchString(s), xa.MatchString(s+"x"), xa.MatchString("x"+s) }); p {
		rr.viol("QuoteMeta-anchored", s, "true,false,false", "panic: "+msg, nil)
	} else if !m1 || m2 || m3 {
		rr.viol("QuoteMeta-anchored", s, "true,false,false", fmt.Sprintf("%v,%v,%v", m1, m2, m3), nil)
	}
	return q
}

// ---------------------------------------------------------------------------

func c09Main(args []string) int {
	fs := flag.NewFlagSet("c09", flag.ExitOnError)
	seed := fs.Uint64("seed", 1, "seed")
	tier := fs.String("tier", "quick", "quick|thorough")
	n := fs.Int("n", 0, "number of generated valid patterns (0 = tier default)")
	out := fs.String("out", "cases.v", "Coq case file")
	statsPath := fs.String("stats", "stats.json", "stats output")
	corpus := fs.String("corpus", "/verif/corpus/patterns_harvested.txt", "pattern corpus")
	screen := fs.String("screen", "", "internal: child mode, pre-screen the patterns listed in this file")
	screenFrom := fs.Int("screen-from", 0, "internal: first line to pre-screen")
	noScreen := fs.Bool("no-screen", false, "do not pre-screen the patterns in a child process")
	fs.Parse(args)
	if *screen != "" {
		return c09ScreenChild(*screen, *screenFrom)
	}

	nValid, nMut, nQuote := 700, 1400, 2500
	if *tier == "thorough" {
		nValid, nMut, nQuote = 4000, 12000, 20000
	}
	if *n > 0 {
		nValid, nMut = *n, 2**n
	}

	st := newStats("C09", *seed)
	rr := &c09Run{st: st}
	root := newRng(*seed)
	t0 := time.Now()

	// (a)+(b) patterns
	type item struct{ pat, src string }
	var items []item
	for _, p := range c09Fixed {
		items = append(items, item{p, "fixed"})
	}
	for _, p := range c09Nested() {
		items = append(items, item{p, "nested"})
	}
	pg := &patGen{r: root.fork(1), corpus: loadCorpus(*corpus)}
	var valid []string
	for i := 0; i < nValid; i++ {
		p, src := pg.next(i)
		valid = append(valid, p)
		items = append(items, item{p, "valid-" + src})
	}
	for i := 0; i < nMut; i++ {
		r := root.fork(uint64(i) + 3_000_000)
		p := valid[r.intn(len(valid))]
		m := c09Mutate(r, p)
		if r.intn(4) == 0 {
			m = c09Mutate(r, m)
		}
		items = append(items, item{m, "mutant"})
	}
	pats := make([]string, len(items))
	for i, it := range items {
		pats[i] = it.pat
	}
	crashed := map[int]string{}
	if !*noScreen {
		crashed = c09Screen(pats)
	}
	seen := map[string]bool{}
	for i, it := range items {
		if seen[it.pat] {
			st.hist("dup")
			continue
		}
		seen[it.pat] = true
		rr.idx = i
		if msg, bad := crashed[i]; bad {
			// the process dies inside coregex (not recoverable): nothing else is run on it
			st.hist("src:" + it.src)
			_, e1 := regexp.Compile(it.pat)
			rr.viol("Compile-fatal-crash", it.pat, "std err="+c09Err(e1), msg, nil)
			continue
		}
		rr.checkPattern(root.fork(uint64(i)+5_000_000), it.pat, it.src)
	}
	st.Distinct = len(seen)
	for i, lp := range c09LongestPairs {
		rr.idx = len(items) + i
		rr.copyLongest(lp[0], lp[1])
	}
	tPat := time.Since(t0)

	// (c) QuoteMeta
	inputs := c09QuoteInputs(root.fork(2), nQuote)
	var sb strings.Builder
	sb.WriteString("From CV Require Import Quote.\nRequire Import List NArith.\nImport ListNotations.\nOpen Scope N_scope.\n")
	sb.WriteString("Definition cases : list case := [\n")
	ncases := 0
	base := len(items) + len(c09LongestPairs)
	qseen := map[string]bool{}
	for i, s := range inputs {
		if qseen[s] {
			continue
		}
		qseen[s] = true
		rr.idx = base + i
		q := rr.checkQuote(root.fork(uint64(i)+9_000_000), s)
		if ncases < 800 && len(s) <= 64 {
			if ncases > 0 {
				sb.WriteString(";\n")
			}
			fmt.Fprintf(&sb, " mkCase %d %s %s", base+i, coqString(s), coqString(q))
			ncases++
		}
	}
	sb.WriteString("\n].\nDefinition M := Eval vm_compute in mismatches cases.\nPrint M.\n")
	if err := os.WriteFile(*out, []byte(sb.String()), 0o644); err != nil {
		fatal("cases: %v", err)
	}
	st.CoqCases = ncases
	st.Distinct += len(qseen)
	st.Rule = "patterns: fixed list of nearly-valid / POSIX-only / Perl-only / metadata shapes, nested groups of depth 50..1001, valid patterns (curated+corpus+templates+grammar), 1-2 step mutants of valid patterns; every pattern through Compile, CompilePOSIX, CompileWithConfig, Must*, UnmarshalText vs package regexp (accept/reject, Error(), panic value), accepted ones through String/NumSubexp/SubexpNames/SubexpIndex/LiteralPrefix/MarshalText/UnmarshalText/Copy+Longest; QuoteMeta: all 256 single bytes, all pairs of special bytes, random strings over special bytes/unicode/invalid UTF-8. distinct = distinct pattern strings + distinct QuoteMeta inputs"
	st.Extra["patterns"] = len(seen)
	st.Extra["quote_inputs"] = len(qseen)
	st.Extra["seconds_patterns"] = tPat.Seconds()
	st.Extra["seconds_total"] = time.Since(t0).Seconds()
	st.Extra["utf8_valid_quote_inputs"] = func() int {
		c := 0
		for s := range qseen {
			if utf8.ValidString(s) {
				c++
			}
		}
		return c
	}()
	st.write(*statsPath)
	fmt.Fprintf(os.Stderr, "c09: %d patterns, %d QuoteMeta inputs, %d coq cases, %d violations (%d recorded) in %.1fs\n",
		len(seen), len(qseen), ncases, st.TotalViolations, len(st.Violations), time.Since(t0).Seconds())
	return 0
}
