package main

import (
	"encoding/hex"
	"flag"
	"fmt"
	"os"
	"regexp"
	"regexp/syntax"
	"strings"
	"unicode/utf8"

	"github.com/coregx/coregex/dfa/onepass"
	"github.com/coregx/coregex/nfa"
)

// ---------------------------------------------------------------------------
// onepass-cases — correspondence cases for Onepass.v (properties C03/C14 for the one-pass
// DFA, dfa/onepass/*.go).  For every pattern the NFA is compiled exactly as
// meta/compile.go:buildOnePassDFA does (UTF8, Anchored), dumped as a Gallina term (NFA <= 40
// states), onepass.Build is run (success recorded) and, if it succeeds, DFA.Search and
// DFA.IsMatch are observed on haystacks <= 10 bytes.  The Coq case checker replays the
// MODEL of Build/Search/IsMatch (`mismatches`: build success and every observation must
// agree) and compares the observations with the reference search (`ref_mismatches`).
// On the Go side every Search result is compared with the PikeVM captures on the same
// anchored NFA and, for valid UTF-8 haystacks, with regexp `^(?:p)`; a disagreement is a
// violation `onepass-vs-reference` (RC onepass.DFA.Search).
// ---------------------------------------------------------------------------

// patterns aimed at the one-pass builder: captures next to empty alternatives, optional
// groups, loops back to the start state, end/start assertions, equal targets reached with
// different capture masks.
var onepassCurated = []string{
	`(|a)`, `ab`, `a*(|(b))c*`, `(a)|b`, `(a)(b)?`, `(a+)(b+)?`, `(?:(a)|b)(c)?`, `a(?:b+|(c*))`,
	`(\d+)(?:\.\d+|(e?))`, `(x)?(?:y+|(z*))w?`, `(\w+)(?:@(\w+))?`, `([a-z]+)(?:-([0-9]*))?x?`,
	`(?:(ab)|a(c)?)d*`, `(a)(?:(b)|c+)(d?)`, `([ab])+(?:c|(d*))e?`, `(a)$`, `(a)*$`, `(?:$|a)`, `(?:a$|ab)`,
	`(a|$)`, `(?:(a)$|ab)`, `^(a)`, `^(a)*`, `(^a)*`, `(?:^|a)b`, `(a)^b`, `(?m)^(a)$`, `(?m)(a)$`, `(a)\b`, `\b(a)`,
	`(?:a|()a)`, `(?:()a|a)`, `(?:a|(b)?a)`, `(?:(b)?a|a)`, `(?:a|(?:(b)|)a)c`, `(a)|(b)|(c)`, `(a|b)*c`, `((a)|(b))*c`,
	`(a*)(b*)`, `(a*)b(a*)`, `(a?)(b?)(c?)`, `(?:(a)|(b)|)c`, `(a(b(c)?)?)?`, `(a)(?:b(c))?d`, `(?:a(b)|c(d))e`,
	`([a-c]+)([d-f]*)`, `(\d+)-(\d+)`, `([a-z]+)\s+([a-z]+)`, `x*yx*`, `(x*)y(x*)`, `(.)`, `(.)(.)?`, `(é)+`, `([α-ω])x`,
	`(a)|`, `|(a)`, `(a|)`, `(|a)*`, `(a|)+b`, `(?:|(a))b`, `(a)??b`, `(a)*?b`, `(a)+?`, `(a){2}`, `(a){1,2}b`, `(?:(a)b)*c`,
	`(a)(?:$|b)`, `(a)(?:b|$)`, `(a)(?:b|$)c?`, `(?:(a)$)?`, `(a$)?b`, `(a)\z`, `\A(a)`, `(a)(?:\z|(b))`, `(?i)(a)b`,
}

type opPatGen struct{ r *rng }

func (g *opPatGen) lit() string {
	return g.r.pick([]string{"a", "b", "c", "d", "ab", "x", "0", "[ab]", "[a-c]", "[0-9]", "é", "."})
}

func (g *opPatGen) piece(depth int) string {
	var p string
	switch k := g.r.intn(12); {
	case k < 3 || depth > 2:
		p = g.lit()
	case k < 6:
		p = "(" + g.alt(depth+1) + ")"
	case k < 8:
		p = "(?:" + g.alt(depth+1) + ")"
	case k < 9:
		p = "()"
	case k < 10:
		p = g.r.pick([]string{"$", "^", `\z`, `\A`, `\b`})
	default:
		p = "(" + g.lit() + ")"
	}
	return p + g.r.pick([]string{"", "", "", "?", "*", "+", "??", "*?"})
}

func (g *opPatGen) seq(depth int) string {
	n := g.r.intn(3)
	if depth == 0 {
		n++
	}
	var sb strings.Builder
	for i := 0; i < n; i++ {
		sb.WriteString(g.piece(depth))
	}
	return sb.String()
}

func (g *opPatGen) alt(depth int) string {
	n := 1 + g.r.intn(3)
	parts := make([]string, n)
	for i := range parts {
		parts[i] = g.seq(depth)
	}
	return strings.Join(parts, "|")
}

func opSlotsString(s []int) string {
	if s == nil {
		return "nil"
	}
	return fmt.Sprint(s)
}

func opEqual(a, b []int) bool {
	if (a == nil) != (b == nil) || len(a) != len(b) {
		return false
	}
	for i := range a {
		if a[i] != b[i] {
			return false
		}
	}
	return true
}

// opPikeSlots: anchored captures of the PikeVM on the same (anchored) NFA, as a slot list.
func opPikeSlots(vm *nfa.PikeVM, ncap int, h []byte) []int {
	m := vm.SearchWithCaptures(h)
	if m == nil {
		return nil
	}
	out := make([]int, 2*ncap)
	for i := range out {
		out[i] = -1
	}
	for i := 0; i < ncap && i < len(m.Captures); i++ {
		if len(m.Captures[i]) == 2 {
			out[2*i], out[2*i+1] = m.Captures[i][0], m.Captures[i][1]
		}
	}
	return out
}

func opHay(r *rng, hg *hayGen, re *syntax.Regexp, j int) []byte {
	var h []byte
	switch j % 7 {
	case 0:
		if j == 0 {
			h = []byte{}
		} else {
			h = sampleMatch(r, re, 0)
		}
	case 1, 2:
		h = sampleMatch(r, re, 0)
	case 3:
		h = concatBytes(sampleMatch(r, re, 0), []byte(r.pick([]string{"a", "b", "c", "x", " ", "\n", "0"})))
	case 4:
		h = concatBytes(sampleMatch(r, re, 0), sampleMatch(r, re, 0))
	case 5:
		m := sampleMatch(r, re, 0)
		if len(m) > 0 {
			m = m[:r.intn(len(m))]
		}
		h = concatBytes(m, hg.noise(2))
	default:
		h = hg.noise(6)
	}
	if len(h) > 10 {
		h = h[:10]
	}
	return h
}

func cmdOnepassCases(args []string) int {
	fs := flag.NewFlagSet("onepass-cases", flag.ExitOnError)
	seed := fs.Uint64("seed", 1, "seed")
	tier := fs.String("tier", "quick", "quick|thorough")
	npat := fs.Int("n", 0, "number of patterns (0: by tier)")
	out := fs.String("out", "cases.v", "Coq case file")
	statsPath := fs.String("stats", "stats.json", "stats output")
	corpus := fs.String("corpus", "/verif/corpus/patterns_harvested.txt", "pattern corpus")
	fs.Parse(args)

	st := newStats("C03", *seed)
	np, maxObs, perPat := 260, 1500, 6
	if *tier == "thorough" {
		np, perPat = 2000, 10
	}
	if *npat > 0 {
		np = *npat
	}
	r := newRng(*seed)
	pg := &patGen{r: r.fork(1), corpus: loadCorpus(*corpus)}
	og := &opPatGen{r: r.fork(2)}
	distinct := distinctSet{}

	var coq strings.Builder
	coq.WriteString("From CV Require Import Nfa Onepass.\nFrom Coq Require Import List NArith ZArith.\nImport ListNotations.\nOpen Scope N_scope.\n")
	coq.WriteString("(* generated by `harness onepass-cases`: onepass.Build success, DFA.Search slots and DFA.IsMatch as observed *)\n")
	coq.WriteString("Definition cases : list case := [\n")
	ncase, nobs, used, tried, built := 0, 0, 0, 0, 0
	stride := 1
	if *tier == "thorough" {
		stride = 8
	}
	sel := r.fork(99)
	for i := 0; used < np && tried < 40*np; i++ {
		tried++
		var pat, src string
		switch {
		case i < len(onepassCurated):
			pat, src = onepassCurated[i], "onepass-curated"
		case i%4 == 0:
			pat, src = pg.next(len(curatedPatterns) + i)
		case i%4 == 1:
			pat, src = curatedPatterns[r.intn(len(curatedPatterns))], "curated"
		default:
			pat, src = og.alt(0), "onepass-grammar"
		}
		re, err := syntax.Parse(pat, syntax.Perl)
		if err != nil {
			st.hist("skip:parse")
			continue
		}
		n, err := nfa.NewCompiler(nfa.CompilerConfig{UTF8: true, Anchored: true}).CompileRegexp(re)
		if err != nil {
			st.hist("skip:nfacompile")
			continue
		}
		d := dumpNFA(n)
		if !d.ok || n.States() > 40 || strings.Contains(d.coq, "999999") {
			st.hist("skip:nfa-too-large-or-unsupported")
			continue
		}
		used++
		st.hist("src:" + src)
		dfa, berr := onepass.Build(n)
		ok := berr == nil && dfa != nil
		if ok {
			built++
			st.hist("build:ok")
		} else {
			st.hist("build:" + fmt.Sprint(berr))
		}
		keep := ncase == 0 || (nobs < maxObs && sel.intn(stride) == 0)
		var cs strings.Builder
		if keep {
			fmt.Fprintf(&cs, "  (* %d: %s *)\n  mkCase %d %s %s [", i, pkSafe(pat), ncase, d.coq, coqBool(ok))
		}
		if ok {
			pr := r.fork(uint64(i) + 9000)
			hg := newHayGen(pr.fork(7), re)
			vm := nfa.NewPikeVM(n)
			std, stdErr := regexp.Compile(`^(?:` + pat + `)`)
			cache := onepass.NewCache(dfa.NumCaptures())
			seen := map[string]bool{}
			k := 0
			for j := 0; j < perPat; j++ {
				h := opHay(pr, hg, re, j+i)
				if seen[string(h)] {
					continue
				}
				seen[string(h)] = true
				res := dfa.Search(h, cache)
				var got []int
				if res != nil {
					got = append([]int{}, res...)
				}
				im := dfa.IsMatch(h)
				st.Evaluations += 2
				distinct.add(fmt.Sprintf("%s\x00%s", pat, h))
				want := opPikeSlots(vm, n.CaptureCount(), h)
				oracle := "pikevm"
				if opEqual(got, want) && stdErr == nil && utf8.Valid(h) {
					want = std.FindSubmatchIndex(h)
					oracle = "regexp"
				}
				hx := hex.EncodeToString(h)
				if !opEqual(got, want) {
					st.violate(violation{Kind: "onepass-vs-reference", Case: i, RC: "onepass.DFA.Search",
						Detail:   map[string]any{"pattern": pat, "api": "Search", "oracle": oracle, "haystack_hex": hx},
						Sig:      fmt.Sprintf("onepass Search %s %s", pat, hx),
						Expected: opSlotsString(want), Got: opSlotsString(got)})
				}
				if im != (want != nil) {
					st.violate(violation{Kind: "onepass-vs-reference", Case: i, RC: "onepass.DFA.IsMatch",
						Detail:   map[string]any{"pattern": pat, "api": "IsMatch", "oracle": oracle, "haystack_hex": hx},
						Sig:      fmt.Sprintf("onepass IsMatch %s %s", pat, hx),
						Expected: fmt.Sprint(want != nil), Got: fmt.Sprint(im)})
				}
				switch {
				case got == nil:
					st.hist("search:nil")
				case got[1] < len(h):
					st.hist("search:prefix")
				default:
					st.hist("search:whole")
				}
				if keep {
					if k > 0 {
						cs.WriteString("; ")
					}
					fmt.Fprintf(&cs, "mkObs %s %s (%s%%Z) %s", coqBytes(h), coqBool(got != nil), coqZList(got), coqBool(im))
					k++
					nobs++
				}
			}
		}
		if keep {
			cs.WriteString("]")
			if ncase > 0 {
				coq.WriteString(";\n")
			}
			coq.WriteString(cs.String())
			ncase++
		}
	}
	coq.WriteString("\n].\n")
	coq.WriteString("Definition M := Eval vm_compute in mismatches cases.\nPrint M.\n")
	coq.WriteString("Definition R := Eval vm_compute in ref_mismatches cases.\nPrint R.\n")
	coq.WriteString("Definition H := Eval vm_compute in hyp_failures cases.\nPrint H.\n")
	if err := os.WriteFile(*out, []byte(coq.String()), 0o644); err != nil {
		fatal("write %s: %v", *out, err)
	}
	st.CoqCases = ncase
	st.Distinct = len(distinct)
	st.Rule = "per pattern (one-pass curated + one-pass grammar + curated + corpus/templates; anchored UTF-8 NFA <= 40 states): onepass.Build success; if built, haystacks <= 10 bytes (empty, sampled matches, match + one byte, two matches, truncated match + noise, noise): DFA.Search slots and DFA.IsMatch, compared in Go with nfa.PikeVM.SearchWithCaptures on the same NFA and regexp ^(?:p) (onepass-vs-reference) and in Coq with the Onepass model (M) and the reference Nfa.search_with (R). distinct = distinct (pattern, haystack)"
	st.Extra["patterns"] = used
	st.Extra["built"] = built
	st.Extra["observations_in_coq"] = nobs
	st.write(*statsPath)
	fmt.Printf("onepass-cases: %d patterns (%d built), %d evaluations, %d coq cases (%d observations), %d violations\n", used, built, st.Evaluations, ncase, nobs, st.TotalViolations)
	return 0
}

func init() { register("onepass-cases", cmdOnepassCases) }
