// Command harness drives coregx/coregex (from /repo, via the replace directive in
// go.mod) for the verification checks in /verif.  Each sub-command lives in its own
// file and registers itself in init().
package main

import (
	"fmt"
	"os"
	"runtime"
	"runtime/debug"
	"sort"
)

type subcmd func(args []string) int

var registry = map[string]subcmd{}

func register(name string, f subcmd) { registry[name] = f }

func main() {
	// No background GC: sync.Pool is emptied by the collector, and several strategies of the
	// library return history-dependent results (recorded findings); with the collector's timing
	// out of the picture a run is a deterministic function of its flags.  Sub-commands that
	// study GC (c13-api, c20) call runtime.GC() explicitly.
	if os.Getenv("VERIF_KEEP_GC") == "" {
		debug.SetGCPercent(-1)
		debug.SetMemoryLimit(12 << 30)
	}
	if len(os.Args) < 2 {
		usage()
		os.Exit(2)
	}
	// One P: sync.Pool keeps a private slot per P, so with several Ps the pooled search
	// state (and DFA cache) a call receives depends on which P the goroutine happens to run
	// on; with history-dependent strategies the same corpus then gives different answers in
	// different runs.  The race replay and the parallel sweeps keep all Ps.
	switch os.Args[1] {
	case "c06-race", "c15", "c07":
	default:
		if os.Getenv("VERIF_KEEP_PROCS") == "" {
			runtime.GOMAXPROCS(1)
		}
	}
	f, ok := registry[os.Args[1]]
	if !ok {
		usage()
		os.Exit(2)
	}
	os.Exit(f(os.Args[2:]))
}

func usage() {
	names := make([]string, 0, len(registry))
	for n := range registry {
		names = append(names, n)
	}
	sort.Strings(names)
	fmt.Fprintln(os.Stderr, "usage: harness <subcommand> [flags]; subcommands:", names)
}
