package main

import (
	"encoding/hex"
	"flag"
	"fmt"
	"os"
	"regexp/syntax"
	"strings"

	"github.com/coregx/coregex/dfa/lazy"
	"github.com/coregx/coregex/nfa"
)

// ---------------------------------------------------------------------------
// dfa-cases — correspondence cases for Dfa.v (the lazy DFA of dfa/lazy: determinisation,
// start states, the byte-accounted state cache with clears, the search loops).
//
// A case is ONE lazy.DFA value (NFA <= 60 states + configuration) and a HISTORY of calls on
// ONE DFACache starting from NewCache(): FindAt / SearchAt / SearchFirstAt / SearchAtAnchored /
// IsMatchAt (and, on the reverse DFA, SearchReverse / IsMatchReverse) with the observed result and, after every call, cache.Size(), cache.ClearCount()
// and cache.MemoryUsage().  Dfa.v replays the history on its model of the cache machine
// (`mismatches`: model fidelity, must be empty) and compares the observed results with the
// reference search Nfa.find_at (`ref_mismatches`: the real code against "DFA result = NFA
// reference result"; non-empty for the recorded C14 findings).
// On the Go side every unanchored result is compared with the bounded backtracker on a fresh
// state (proved equal to the reference in Backtrack.v): violation `lazydfa-vs-backtracker`.
// ---------------------------------------------------------------------------

var dfaCasePatterns = []string{
	`a`, `ab`, `a|b`, `a*`, `a+`, `a?b`, `(a|b)*abb`, `(a|ab)(c|bcd)`, `(?:a|ab)(?:c|bcd)`, `a+?`, `a*?b`, `(a+)(b*)`,
	`a[bc]*`, `a[bc]*d`, `[a-c]+x`, `x[a-c]*y|xa`, `ab|abc|abcd`, `abcd|abc|ab`, `foo|foobar`, `(ab|b)*c`, `(b|ab)*c`, `(?:ab|b|a)*c`,
	`(a|b)*a(a|b)`, `(a|b)*a(a|b)(a|b)`, `[ab]*a[ab]{2}`, `.`, `..`, `a.c`, `a.*c`, `a.*?c`, `(?s)a.*c`, `.*b`, `[^a]+`, `\d+`, `\w+`, `\d+\.\d+`,
	`^a`, `^ab`, `a$`, `^a$`, `^$`, `$`, `^`, `\Aab\z`, `(?m)^a`, `(?m)a$`, `(?m)^a$`, `(?m)^$`, `(?m)$`, `(?m)^`, `(?m)a$\n^b`, `^a|b$`, `(^a|b)c`, `a$|b`, `x*$`, `^x*`,
	`\ba`, `a\b`, `\bab\b`, `\Ba`, `a\B`, `\b`, `\B`, `\b$`, `$\b`, `\B$`, `^\b`, `a\b.`, `\b\w+\b`, `(?:a|b)\b`, `\ba|c`, `\b(?:ab|a)`, `a\bb`, `a\B.`, `\w\b\W`,
	`(?m)$^`, `(?m)a$^`, `(?m)a\b$`, `(?m)a$\b`, `(?m)^\ba`, `é`, `[à-ÿ]`, `.é`, `(a*)*`, `(a|b*)*c`, `(|a)+b`, `a{2,3}`, `(ab){2}`, `x{1,3}?y`,
	`x|$`, `x|\z`, `ab|$`, `a.b|a.c`, `[ab][bc][cd]`, `a[^b]*b`, `"[^"]*"`, `(?s).*a`, `(?s).*?a`, `aa*b|a*c`, `(?:x|xy)(?:yz|z)`,
}

type dfaCaseCfg struct {
	name string
	cfg  lazy.Config
}

func dfaCaseCfgs() []dfaCaseCfg {
	base := lazy.DefaultConfig().WithPrefilter(false)
	return []dfaCaseCfg{
		{"default", base},
		{"cap=1state", base.WithMaxStates(1)},
		{"cap=200,clears=0", base.WithCacheCapacity(200).WithMaxCacheClears(0)},
		{"cap=400,clears=2", base.WithCacheCapacity(400).WithMaxCacheClears(2)},
		{"cap=1024,clears=1000", base.WithCacheCapacity(1024).WithMaxCacheClears(1000)},
		{"cap=600,clears=5,det=3", base.WithCacheCapacity(600).WithDeterminizationLimit(3)},
		{"cap=300,clears=1000", base.WithCacheCapacity(300).WithMaxCacheClears(1000)},
	}
}

func effCap(c lazy.Config) int {
	if c.CacheCapacityBytes > 0 {
		return c.CacheCapacityBytes
	}
	if c.MaxStates > 0 {
		return int(c.MaxStates) * 100
	}
	return lazy.DefaultCacheCapacity
}

// coqClassRuns renders the byte classes of an NFA as runs (last byte of the run, class).
func coqClassRuns(n *nfa.NFA) (string, int) {
	bc := n.ByteClasses()
	var sb strings.Builder
	sb.WriteByte('[')
	first := true
	for b := 0; b < 256; b++ {
		c := bc.Get(byte(b))
		if b == 255 || bc.Get(byte(b+1)) != c {
			if !first {
				sb.WriteString("; ")
			}
			first = false
			fmt.Fprintf(&sb, "(%d, %d%%nat)", b, c)
		}
	}
	sb.WriteByte(']')
	return sb.String(), bc.AlphabetLen()
}

var dfaOpNames = []string{"FindAt", "SearchAt", "SearchFirstAt", "SearchAtAnchored", "IsMatchAt"}

func cmdDfaCases(args []string) int {
	fs := flag.NewFlagSet("dfa-cases", flag.ExitOnError)
	seed := fs.Uint64("seed", 1, "seed")
	tier := fs.String("tier", "quick", "quick|thorough")
	npat := fs.Int("n", 0, "number of patterns (0: by tier)")
	out := fs.String("out", "cases.v", "Coq case file")
	statsPath := fs.String("stats", "stats.json", "stats output")
	corpus := fs.String("corpus", "/verif/corpus/patterns_harvested.txt", "pattern corpus")
	only := fs.String("pattern", "", "run this single pattern only (debugging)")
	ncalls := fs.Int("calls", 8, "calls per history")
	maxStates := fs.Int("maxstates", 60, "largest NFA")
	fs.Parse(args)

	st := newStats("C14", *seed)
	np := 40
	if *tier == "thorough" {
		np = 200
	}
	if *npat > 0 {
		np = *npat
	}
	r := newRng(*seed)
	pg := &patGen{r: r.fork(1), corpus: loadCorpus(*corpus)}
	distinct := distinctSet{}
	cfgs := dfaCaseCfgs()

	var defs, cases strings.Builder
	ncases, used, tried, nobs := 0, 0, 0, 0
	emitCase := func(pat string, dc dfaCaseCfg, i, stride int, calls []string) {
		if len(calls) == 0 {
			return
		}
		if ncases > 0 {
			cases.WriteString(";\n")
		}
		fmt.Fprintf(&cases, "  (* %s, %s *)\n  mkCase %d nfa_%d (mkCfg %d %d %d %s %d cls_%d false false false false) [\n    %s]",
			pkSafe(pat), dc.name, ncases, i, effCap(dc.cfg), dc.cfg.MaxCacheClears, dc.cfg.DeterminizationLimit, coqBool(dc.cfg.BreakAtMatch), stride, i,
			strings.Join(calls, ";\n    "))
		ncases++
	}
	pick := r.fork(98)
	for i := 0; used < np && tried < 40*np; i++ {
		tried++
		var pat, src string
		switch {
		case *only != "":
			pat, src = *only, "flag"
		case used < len(dfaCasePatterns) && used < 2*np/3:
			// the dedicated list first, rotated by the seed
			pat, src = dfaCasePatterns[(i+int(*seed-1)*53)%len(dfaCasePatterns)], "dfa-list"
		case pick.intn(3) == 0:
			pat, src = curatedPatterns[pick.intn(len(curatedPatterns))], "curated"
		default:
			pat, src = pg.next(len(curatedPatterns) + i)
		}
		re, err := syntax.Parse(pat, syntax.Perl)
		if err != nil {
			st.hist("skip:parse")
			continue
		}
		n, err := nfa.NewDefaultCompiler().CompileRegexp(re)
		if err != nil {
			st.hist("skip:nfacompile")
			continue
		}
		d := dumpNFA(n)
		if !d.ok || n.States() > *maxStates || strings.Contains(d.coq, "999999") {
			st.hist("skip:nfa-too-large-or-unsupported")
			continue
		}
		used++
		st.hist("src:" + src)
		runs, stride := coqClassRuns(n)
		fmt.Fprintf(&defs, "(* %d: %s *)\nDefinition nfa_%d : nfa := %s.\nDefinition cls_%d : list (N * nat) := %s.\n", i, pkSafe(pat), i, d.coq, i, runs)
		pr := r.fork(uint64(i) + 7000)
		hg := newHayGen(pr.fork(7), re)
		bt := nfa.NewBoundedBacktracker(n)
		// a small pool of haystacks per pattern so that histories revisit cached states
		var pool [][]byte
		for j := 0; j < 6; j++ {
			maxLen := 10
			if j%3 == 2 {
				maxLen = 22 // long enough for the 4x-unrolled loops
			}
			pool = append(pool, pkHay(pr, hg, re, j+i, maxLen))
		}
		pool = append(pool, []byte{})
		// which configurations: all for the dedicated list, a rotating subset otherwise
		for ci, dc := range cfgs {
			if src != "dfa-list" && src != "flag" && (ci+i)%3 != 0 {
				continue
			}
			dd, err := lazy.CompileWithConfig(n, dc.cfg)
			if err != nil {
				st.hist("skip:dfa-config")
				continue
			}
			cache := dd.NewCache()
			cr := pr.fork(uint64(ci) + 100)
			var calls []string
			for k := 0; k < *ncalls; k++ {
				h := pool[cr.intn(len(pool))]
				if cr.intn(4) == 0 {
					h = pkHay(cr, hg, re, cr.intn(12), 14)
				}
				at := 0
				if len(h) > 0 && cr.intn(3) == 0 {
					at = cr.intn(len(h) + 1)
				}
				op := cr.intn(5)
				var res int
				switch op {
				case 0:
					res = dd.FindAt(cache, h, at)
					if at == 0 {
						// Find is FindAt(.., 0): checked on a scratch cache so that the history is not disturbed
						if g := dd.Find(dd.NewCache(), h); g != dd.FindAt(dd.NewCache(), h, 0) {
							st.violate(violation{Kind: "lazydfa-find-vs-findat", Case: i, Detail: map[string]any{"pattern": pat, "haystack_hex": hex.EncodeToString(h)},
								Sig: fmt.Sprintf("lazydfa Find %s %x", pat, h), Got: fmt.Sprint(g)})
						}
					}
				case 1:
					res = dd.SearchAt(cache, h, at)
				case 2:
					res = dd.SearchFirstAt(cache, h, at)
				case 3:
					res = dd.SearchAtAnchored(cache, h, at)
				default:
					if dd.IsMatchAt(cache, h, at) {
						res = 1
					}
					if at == 0 {
						if g := dd.IsMatch(dd.NewCache(), h); g != dd.IsMatchAt(dd.NewCache(), h, 0) {
							st.violate(violation{Kind: "lazydfa-ismatch-vs-ismatchat", Case: i, Detail: map[string]any{"pattern": pat, "haystack_hex": hex.EncodeToString(h)},
								Sig: fmt.Sprintf("lazydfa IsMatch %s %x", pat, h), Got: fmt.Sprint(g)})
						}
					}
				}
				st.Evaluations++
				nobs++
				distinct.add(fmt.Sprintf("%s\x00%d\x00%d\x00%s", pat, op, at, h))
				st.hist("op:" + dfaOpNames[op])
				// Go-side oracle for the unanchored entry points.  SearchFirstAt (op 2) is the
				// earliest-match mode: it computes the EARLIEST end, not the leftmost-first end
				// the backtracker returns; it is judged by the model (M) and, against the
				// reference's earliest end, by the c14 sub-command.
				if op != 3 && op != 2 {
					_, be, bok := bt.SearchAtWithState(h, at, nfa.NewBacktrackerState())
					want := -1
					if bok {
						want = be
					}
					if op == 4 {
						want = 0
						if bok {
							want = 1
						}
					}
					if res != want {
						st.violate(violation{Kind: "lazydfa-vs-backtracker", Case: i,
							Detail: map[string]any{"pattern": pat, "api": dfaOpNames[op], "config": dc.name, "call": k, "at": at, "haystack_hex": hex.EncodeToString(h)},
							Sig:    fmt.Sprintf("lazydfa %s/%s#%d %s %x %d got=%d", dfaOpNames[op], dc.name, k, pat, h, at, res),
							RC:     "lazy.DFA." + dfaOpNames[op], Expected: fmt.Sprint(want), Got: fmt.Sprint(res)})
					}
				}
				calls = append(calls, fmt.Sprintf("mkCall %d %s %d %s %d %d %d", op, coqBytes(h), at, coqZ(res), cache.Size(), cache.ClearCount(), cache.MemoryUsage()))
			}
			emitCase(pat, dc, i, stride, calls)
		}
		// saturating histories (default and 1 KiB configurations): SearchFirstAt / SearchAtAnchored
		// never run acceleration detection, so they can fill the row of a state that is still
		// unchecked; a later SearchAt / IsMatchAt visiting it on the slow path detects "exit
		// bytes" from the full row and skips with memchr over the class REPRESENTATIVES.
		for _, ci := range []int{0, 4} {
			dc := cfgs[ci]
			if src != "dfa-list" && src != "flag" && i%2 == 0 {
				continue
			}
			dd, err := lazy.CompileWithConfig(n, dc.cfg)
			if err != nil {
				continue
			}
			cache := dd.NewCache()
			bc := n.ByteClasses()
			var reps, nonreps []byte
			seen := map[byte]bool{}
			for b := 0; b < 256; b++ {
				c := bc.Get(byte(b))
				if !seen[c] {
					seen[c] = true
					reps = append(reps, byte(b))
				}
				if b == 255 || bc.Get(byte(b+1)) != c {
					if !(len(reps) > 0 && reps[len(reps)-1] == byte(b)) {
						nonreps = append(nonreps, byte(b))
					}
				}
			}
			if len(reps) > 8 {
				reps = reps[:8]
			}
			sr := pr.fork(uint64(ci) + 900)
			m := sampleMatch(sr, re, 0)
			if len(m) > 3 {
				m = m[:3]
			}
			var calls []string
			obs := func(op int, h []byte, at int) {
				var res int
				switch op {
				case 1:
					res = dd.SearchAt(cache, h, at)
				case 2:
					res = dd.SearchFirstAt(cache, h, at)
				case 3:
					res = dd.SearchAtAnchored(cache, h, at)
				default:
					op = 4
					if dd.IsMatchAt(cache, h, at) {
						res = 1
					}
				}
				st.Evaluations++
				nobs++
				st.hist("op:" + dfaOpNames[op])
				if op == 1 || op == 4 {
					_, be, bok := bt.SearchAtWithState(h, at, nfa.NewBacktrackerState())
					want := -1
					if bok {
						want = be
					}
					if op == 4 {
						want = 0
						if bok {
							want = 1
						}
					}
					if res != want {
						st.violate(violation{Kind: "lazydfa-vs-backtracker", Case: i,
							Detail: map[string]any{"pattern": pat, "api": dfaOpNames[op], "config": dc.name + "/saturated", "at": at, "haystack_hex": hex.EncodeToString(h)},
							Sig:    fmt.Sprintf("lazydfa-sat %s/%s %s %x %d got=%d", dfaOpNames[op], dc.name, pat, h, at, res),
							RC:     "lazy.DFA." + dfaOpNames[op] + "/accelerated", Expected: fmt.Sprint(want), Got: fmt.Sprint(res)})
					}
				}
				calls = append(calls, fmt.Sprintf("mkCall %d %s %d %s %d %d %d", op, coqBytes(h), at, coqZ(res), cache.Size(), cache.ClearCount(), cache.MemoryUsage()))
			}
			fillOp := 2 + ci/4 // SearchFirstAt for the default configuration, SearchAtAnchored for the other
			for l := 0; l <= len(m) && len(calls) < 36; l++ {
				for _, rb := range reps {
					obs(fillOp, append(append([]byte(nil), m[:l]...), rb), 0)
				}
			}
			for l := 1; l <= len(m) && len(calls) < 50; l++ {
				for _, nb := range nonreps {
					for _, rb := range reps {
						if sr.intn(3) == 0 && len(calls) < 50 {
							obs(1+3*sr.intn(2), append(append([]byte(nil), m[:l]...), nb, rb), 0)
						}
					}
				}
			}
			emitCase(pat, dfaCaseCfg{dc.name + "/saturated", dc.cfg}, i, stride, calls)
			// a fresh cache for the second shape
			cache = dd.NewCache()
			calls = nil
			// the same after ONE arbitrary byte (a state reached by a non-matching prefix keeps the
			// restart loop: its only exits are the first bytes of the pattern), then short searches
			// that contain no exit byte at all: the end-of-input check after a failed memchr
			// ('a' first: a word byte gives a state that differs from the start state by its
			// isFromWord flag, hence is not start-tagged and does get acceleration-checked)
			pre := append([]byte{'a'}, reps...)
			if len(pre) > 4 {
				pre = pre[:4]
			}
			for _, r0 := range pre {
				// first the byte itself: a class is cached from the first byte seen, and the
				// target's isFromWord flag comes from that byte
				if len(calls) < 84 {
					obs(fillOp, []byte{r0, r0}, 0)
				}
				for _, rb := range reps {
					if len(calls) < 84 {
						obs(fillOp, []byte{r0, rb}, 0)
					}
				}
			}
			for _, r0 := range pre {
				if len(calls) < 96 {
					obs(1, []byte{r0, r0}, 0)
					obs(4, []byte{r0, r0, r0}, 0)
				}
			}
			emitCase(pat, dfaCaseCfg{dc.name + "/saturated2", dc.cfg}, i, stride, calls)
		}
		// reverse DFA (nfa.ReverseAnchored, BreakAtMatch off): SearchReverse / IsMatchReverse
		if src == "dfa-list" || src == "flag" || i%3 == 0 {
			if rn := nfa.ReverseAnchored(n); rn != nil {
				rd := dumpNFA(rn)
				if rd.ok && rn.States() <= *maxStates && !strings.Contains(rd.coq, "999999") {
					rruns, rstride := coqClassRuns(rn)
					fmt.Fprintf(&defs, "Definition rnfa_%d : nfa := %s.\nDefinition rcls_%d : list (N * nat) := %s.\n", i, rd.coq, i, rruns)
					for _, ci := range []int{0, 6, 3} {
						dc := cfgs[ci]
						rcfg := dc.cfg
						rcfg.BreakAtMatch = false
						dd, err := lazy.CompileWithConfig(rn, rcfg)
						if err != nil {
							continue
						}
						cache := dd.NewCache()
						cr := pr.fork(uint64(ci) + 300)
						var calls []string
						for k := 0; k < *ncalls; k++ {
							h := pool[cr.intn(len(pool))]
							st0, en := 0, len(h)
							if len(h) > 0 && cr.intn(2) == 0 {
								st0 = cr.intn(len(h) + 1)
								en = cr.intn(len(h) + 2) // may exceed len(h): returns -1
							}
							op := 5 + cr.intn(2)
							var res int
							if op == 5 {
								res = dd.SearchReverse(cache, h, st0, en)
							} else if dd.IsMatchReverse(cache, h, st0, en) {
								res = 1
							}
							st.Evaluations++
							nobs++
							st.hist("op:" + []string{"SearchReverse", "IsMatchReverse"}[op-5])
							calls = append(calls, fmt.Sprintf("mkCall %d %s %d %s %d %d %d", op, coqBytes(h), st0+1000*en, coqZ(res), cache.Size(), cache.ClearCount(), cache.MemoryUsage()))
						}
						if ncases > 0 {
							cases.WriteString(";\n")
						}
						fmt.Fprintf(&cases, "  (* reverse of %s, %s *)\n  mkCase %d rnfa_%d (mkCfg %d %d %d %s %d rcls_%d false false false false) [\n    %s]",
							pkSafe(pat), dc.name, ncases, i, effCap(rcfg), rcfg.MaxCacheClears, rcfg.DeterminizationLimit, coqBool(rcfg.BreakAtMatch), rstride, i,
							strings.Join(calls, ";\n    "))
						ncases++
					}
				}
			}
		}
		if *only != "" {
			break
		}
	}
	_ = ncases
	var coq strings.Builder
	coq.WriteString("From CV Require Import Nfa Dfa.\nFrom Coq Require Import List NArith ZArith.\nImport ListNotations.\nOpen Scope N_scope.\n")
	coq.WriteString("(* generated by `harness dfa-cases`: call histories observed from lazy.DFA + DFACache *)\n")
	coq.WriteString(defs.String())
	coq.WriteString("Definition cases : list case := [\n")
	coq.WriteString(cases.String())
	coq.WriteString("\n].\n")
	coq.WriteString("Definition M := Eval vm_compute in mismatches cases.\nPrint M.\n")
	coq.WriteString("Definition MD := Eval vm_compute in mismatch_details cases.\nPrint MD.\n")
	coq.WriteString("Definition R := Eval vm_compute in ref_mismatches cases.\nPrint R.\n")
	// side condition of DfaPrio.p_search_at_is_ref: the compiler's unanchored prefix is referenced by nothing else
	coq.WriteString("From CV Require Import DfaPrio.\nDefinition PS := Eval vm_compute in map c_id (filter (fun c => andb (prefix_ok (c_nfa c)) (negb (prefix_sep (c_nfa c)))) cases).\nPrint PS.\n")
	if err := os.WriteFile(*out, []byte(coq.String()), 0o644); err != nil {
		fatal("write %s: %v", *out, err)
	}
	st.CoqCases = ncases
	st.Distinct = len(distinct)
	st.Rule = "per pattern (dedicated lazy-DFA list + curated + corpus/templates/grammar, NFA <= 60 states of the modelled kinds) and per cache configuration (capacity / MaxCacheClears / DeterminizationLimit): one history of calls (FindAt, SearchAt, SearchFirstAt, SearchAtAnchored, IsMatchAt; haystacks from a small per-pattern pool so that cached states are revisited, some >= 16 bytes for the unrolled loops; random offsets) on ONE DFACache from NewCache(); after each call the result, Size(), ClearCount(), MemoryUsage() are recorded; Coq replays the history on the cache-machine model (M) and compares the observed results with Nfa.find_at (R); Go compares the unanchored results with the bounded backtracker on a fresh state. distinct = distinct (pattern, entry point, offset, haystack)"
	st.Extra["patterns"] = used
	st.Extra["observed_calls"] = nobs
	st.write(*statsPath)
	fmt.Printf("dfa-cases: %d patterns, %d cases, %d observed calls, %d violations\n", used, ncases, nobs, st.TotalViolations)
	return 0
}

func init() { register("dfa-cases", cmdDfaCases) }
